"""Syscall-boundary tracer: Python side of shim/iotrace.c.

    so  = compile_shim(workdir)                      # gcc -shared; cached in workdir
    env = dict(base_env); env.update(env_for(so, out_path, [image, ...], kill_after=None))
    ... run the (plain-build, dynamically linked) child with env ...
    recs = parse(out_path)                           # [Record], in global (file) order
    selfcheck(pre_image, recs, post_image)           # False => trace incomplete => harness
                                                     # failure for the caller, never a verdict
    replay(pre_image, recs, upto=k, dst_path=p)      # pre-image + records[:k]  -> file p
    ov = replay(pre_image, recs, upto=k)             # ... or only the in-memory Overlay

Record(seq, pid, op, watch, fd, offset, length, result, data, aux, tid):
  op      one of the OP_* constants (OPNAMES[op] for printing)
  watch   index into the watch_paths given to env_for
  offset  file offset the call acted on (write/writev: derived from the descriptor's
          position); ftruncate: the new length
  length  requested byte count;  result: return value or -errno
  data    payload (bytes) of a successful data write, exactly `result` bytes, else b""
  aux     open: flags; fallocate: mode; sync_file_range / pwritev2: flags
`is_modifying(rec)`: the record changed (or may have changed) file content or size; these
are the records counted by IOTRACE_KILL_AFTER (watch index 0 only) and applied by replay.
`is_sync(rec)`: successful fsync/fdatasync/syncfs/sync/sync_file_range(WAIT_AFTER).

What the shim cannot see (stdio, mmap, io_uring, splice, static binaries) is exactly what
selfcheck() exists to detect.  Self-test: python3 -m vf.iotrace
"""
import collections
import os
import struct
import subprocess

VERIF = os.path.dirname(os.path.dirname(os.path.abspath(__file__)))
MAGIC = 0x52544F49
HDR = struct.Struct("<IIIHHiIqQqII")
assert HDR.size == 56

(OP_OPEN, OP_CLOSE, OP_PWRITE, OP_WRITE, OP_PWRITEV, OP_WRITEV, OP_FSYNC, OP_FDATASYNC,
 OP_SYNC_FILE_RANGE, OP_SYNCFS, OP_FTRUNCATE, OP_FALLOCATE, OP_SYNC) = range(1, 14)
OPNAMES = {OP_OPEN: "open", OP_CLOSE: "close", OP_PWRITE: "pwrite", OP_WRITE: "write",
           OP_PWRITEV: "pwritev", OP_WRITEV: "writev", OP_FSYNC: "fsync",
           OP_FDATASYNC: "fdatasync", OP_SYNC_FILE_RANGE: "sync_file_range",
           OP_SYNCFS: "syncfs", OP_FTRUNCATE: "ftruncate", OP_FALLOCATE: "fallocate",
           OP_SYNC: "sync"}
DATA_OPS = (OP_PWRITE, OP_WRITE, OP_PWRITEV, OP_WRITEV)
SYNC_OPS = (OP_FSYNC, OP_FDATASYNC, OP_SYNCFS, OP_SYNC)

FALLOC_FL_KEEP_SIZE = 0x01
FALLOC_FL_PUNCH_HOLE = 0x02
FALLOC_FL_ZERO_RANGE = 0x10
SYNC_FILE_RANGE_WAIT_AFTER = 4

Record = collections.namedtuple(
    "Record", "seq pid op watch fd offset length result data aux tid", defaults=(0, 0))


class IOTraceError(Exception):
    pass


def compile_shim(workdir):
    """Build shim/iotrace.c into <workdir>/iotrace.so (once); returns the path."""
    so = os.path.join(workdir, "iotrace.so")
    if os.path.exists(so):
        return so
    src = os.path.join(VERIF, "shim", "iotrace.c")
    tmp = so + ".tmp%d" % os.getpid()
    r = subprocess.run(["gcc", "-shared", "-fPIC", "-O1", "-Wall", "-o", tmp, src,
                        "-ldl", "-lpthread"], stdout=subprocess.PIPE, stderr=subprocess.STDOUT)
    if r.returncode != 0:
        raise IOTraceError("iotrace shim build failed: " + r.stdout.decode("utf-8", "replace")[-600:])
    os.rename(tmp, so)
    return so


def env_for(so_path, out_path, watch_paths, kill_after=None):
    """Environment additions for a traced child.  watch_paths: absolute paths; the position
    in the list is the record's watch index."""
    wp = [os.path.abspath(p) for p in watch_paths]
    for p in wp:
        if ":" in p:
            raise IOTraceError("watched path contains ':' - " + p)
    env = {"LD_PRELOAD": so_path, "IOTRACE_OUT": os.path.abspath(out_path),
           "IOTRACE_WATCH": ":".join(wp)}
    if kill_after:
        env["IOTRACE_KILL_AFTER"] = str(int(kill_after))
    return env


def parse(out_path):
    """All records of a trace file in file order (= global order of the calls)."""
    try:
        with open(out_path, "rb") as f:
            buf = f.read()
    except FileNotFoundError:
        return []
    out = []
    pos = 0
    n = len(buf)
    while pos < n:
        if pos + HDR.size > n:
            raise IOTraceError("truncated record header at byte %d of %s" % (pos, out_path))
        (magic, seq, pid, op, watch, fd, aux, off, length, result, paylen,
         tid) = HDR.unpack_from(buf, pos)
        if magic != MAGIC or op not in OPNAMES:
            raise IOTraceError("bad record at byte %d of %s" % (pos, out_path))
        pos += HDR.size
        if pos + paylen > n:
            raise IOTraceError("truncated payload at byte %d of %s" % (pos, out_path))
        data = buf[pos:pos + paylen]
        pos += paylen
        if op in DATA_OPS and result > 0 and paylen != result:
            raise IOTraceError("payload length %d != result %d (record %d)" % (paylen, result, len(out)))
        out.append(Record(seq, pid, op, watch, fd, off, length, result, data, aux, tid))
    return out


def is_modifying(rec):
    if rec.op in DATA_OPS:
        return rec.result > 0
    if rec.op in (OP_FTRUNCATE, OP_FALLOCATE):
        return rec.result == 0
    if rec.op == OP_OPEN:
        return rec.result >= 0 and bool(rec.aux & os.O_TRUNC) and (rec.aux & os.O_ACCMODE) != os.O_RDONLY
    return False


def is_sync(rec):
    if rec.op in SYNC_OPS:
        return rec.result == 0
    if rec.op == OP_SYNC_FILE_RANGE:
        return rec.result == 0 and bool(rec.aux & SYNC_FILE_RANGE_WAIT_AFTER)
    return False


def describe(rec, idx=None):
    s = "%s%s pid=%d fd=%d off=%d len=%d -> %d" % (
        ("#%d " % idx) if idx is not None else "", OPNAMES.get(rec.op, rec.op), rec.pid, rec.fd,
        rec.offset, rec.length, rec.result)
    if rec.op in (OP_OPEN, OP_FALLOCATE) or rec.aux:
        s += " aux=0x%x" % rec.aux
    if rec.data:
        s += " data=%s%s" % (rec.data[:16].hex(), "..." if len(rec.data) > 16 else "")
    return s


class Overlay:
    """Sparse in-memory overlay over a base file: the base file is never modified and
    never copied; only touched blocks are held."""
    B = 4096

    def __init__(self, base_path):
        self.base_path = base_path
        self._f = open(base_path, "rb")
        self.base_size = os.fstat(self._f.fileno()).st_size
        self.base_limit = self.base_size     # bytes of the base still visible (shrinks on truncate)
        self.size = self.base_size
        self.blocks = {}                     # index -> bytearray(B) | None (= all zero)

    def close(self):
        self._f.close()

    def __enter__(self):
        return self

    def __exit__(self, *a):
        self.close()

    # -- base
    def base_read(self, off, n, limit=None):
        """n bytes of the *original* file at off, zero-filled beyond its end (or `limit`)."""
        lim = self.base_size if limit is None else limit
        if off >= lim or n <= 0:
            return bytes(max(n, 0))
        m = min(n, lim - off)
        b = os.pread(self._f.fileno(), m, off)
        if len(b) < n:
            b += bytes(n - len(b))
        return b

    def _load(self, idx):
        b = self.blocks.get(idx, False)
        if b is False or b is None:
            if b is None:
                b = bytearray(self.B)
            else:
                b = bytearray(self.base_read(idx * self.B, self.B, self.base_limit))
            self.blocks[idx] = b
        return b

    # -- current content
    def read(self, off, n):
        """Current content; zero-filled beyond the current size."""
        out = bytearray(self.base_read(off, n, self.base_limit))
        if self.blocks:
            B = self.B
            for idx in range(off // B, (off + n + B - 1) // B):
                b = self.blocks.get(idx, False)
                if b is False:
                    continue
                bo = idx * B
                s = max(off, bo)
                e = min(off + n, bo + B)
                out[s - off:e - off] = bytes(e - s) if b is None else b[s - bo:e - bo]
        if off + n > self.size:
            k = max(self.size - off, 0)
            out[k:] = bytes(n - k)
        return bytes(out)

    # -- mutation
    def write(self, off, data):
        B = self.B
        n = len(data)
        pos = 0
        while pos < n:
            o = off + pos
            idx, bo = divmod(o, B)
            l = min(B - bo, n - pos)
            if l == B:
                self.blocks[idx] = bytearray(data[pos:pos + B])
            else:
                self._load(idx)[bo:bo + l] = data[pos:pos + l]
            pos += l
        if off + n > self.size:
            self.size = off + n

    def zero(self, off, n):
        B = self.B
        end = off + n
        while off < end:
            idx, bo = divmod(off, B)
            l = min(B - bo, end - off)
            if l == B:
                self.blocks[idx] = None
            else:
                self._load(idx)[bo:bo + l] = bytes(l)
            off += l

    def truncate(self, n):
        B = self.B
        if n < self.size:
            for idx in [i for i in self.blocks if i * B >= n]:
                del self.blocks[idx]
            if n % B and (n < self.base_limit or (n // B) in self.blocks):
                b = self._load(n // B)
                b[n % B:] = bytes(B - n % B)
            self.base_limit = min(self.base_limit, n)
        self.size = n

    def apply(self, rec):
        """Apply one record.  Returns the list of (offset, length) byte ranges whose content
        may have changed ([] for records that change nothing).  Raises IOTraceError for an
        operation that cannot be replayed."""
        if not is_modifying(rec):
            return []
        if rec.op in DATA_OPS:
            self.write(rec.offset, rec.data)
            return [(rec.offset, len(rec.data))]
        if rec.op == OP_OPEN:
            old = self.size
            self.truncate(0)
            return [(0, old)]
        if rec.op == OP_FTRUNCATE:
            old = self.size
            self.truncate(rec.offset)
            return [(rec.offset, old - rec.offset)] if old > rec.offset else []
        if rec.op == OP_FALLOCATE:
            mode = rec.aux
            off, ln = rec.offset, rec.length
            if mode & ~(FALLOC_FL_KEEP_SIZE | FALLOC_FL_PUNCH_HOLE | FALLOC_FL_ZERO_RANGE):
                raise IOTraceError("cannot replay fallocate mode 0x%x" % mode)
            changed = []
            if mode & (FALLOC_FL_PUNCH_HOLE | FALLOC_FL_ZERO_RANGE):
                end = off + ln
                if (mode & FALLOC_FL_KEEP_SIZE) or (mode & FALLOC_FL_PUNCH_HOLE):
                    end = min(end, self.size)
                if end > off:
                    if end > self.size:
                        self.truncate(end)
                    self.zero(off, end - off)
                    changed.append((off, end - off))
            elif not (mode & FALLOC_FL_KEEP_SIZE) and off + ln > self.size:
                self.truncate(off + ln)
            return changed
        raise IOTraceError("cannot replay op %s" % rec.op)

    # -- output / comparison
    def chunks(self, step=1 << 20):
        off = 0
        while off < self.size:
            n = min(step, self.size - off)
            yield off, self.read(off, n)
            off += n

    def equals_file(self, path):
        """(True, None) or (False, description of the first difference)."""
        sz = os.path.getsize(path)
        if sz != self.size:
            return False, "size %d != replayed size %d" % (sz, self.size)
        with open(path, "rb") as f:
            for off, exp in self.chunks():
                got = f.read(len(exp))
                if got != exp:
                    for i in range(0, len(exp), 512):
                        if got[i:i + 512] != exp[i:i + 512]:
                            return False, "content differs at byte offset %d" % (off + i)
        return True, None

    def write_to(self, dst):
        if os.path.exists(dst):
            os.unlink(dst)
        subprocess.run(["cp", "--sparse=always", self.base_path, dst], check=True)
        B = self.B
        with open(dst, "r+b") as f:
            if self.base_limit < self.base_size:
                f.truncate(self.base_limit)
            f.truncate(self.size)
            for idx in sorted(self.blocks):
                o = idx * B
                if o >= self.size:
                    continue
                b = self.blocks[idx]
                b = bytes(B) if b is None else bytes(b)
                f.seek(o)
                f.write(b[:min(B, self.size - o)])
        return dst


def replay(pre_image_path, records, upto=None, dst_path=None, keep=None, watch=0):
    """Apply the modifying records of watch index `watch` among records[:upto] (all when upto
    is None) to a sparse overlay over pre_image_path, in order.  `keep`: optional set of
    record indices; modifying records whose index is not in it are dropped (lost writes).
    Writes the result to dst_path when given.  Returns the Overlay (caller may close())."""
    ov = Overlay(pre_image_path)
    end = len(records) if upto is None else min(upto, len(records))
    for i in range(end):
        r = records[i]
        if r.watch != watch or not is_modifying(r):
            continue
        if keep is not None and i not in keep:
            continue
        ov.apply(r)
    if dst_path is not None:
        ov.write_to(dst_path)
    return ov


def selfcheck(pre_image, records, post_image, watch=0, why=None):
    """True iff replaying every record over the pre-image reproduces the post-image byte for
    byte.  False means the trace is incomplete (or unreplayable): a harness failure for the
    caller, never a verdict.  `why`: optional list that receives a description."""
    try:
        ov = replay(pre_image, records, watch=watch)
    except IOTraceError as e:
        if why is not None:
            why.append(str(e))
        return False
    try:
        ok, what = ov.equals_file(post_image)
    finally:
        ov.close()
    if not ok and why is not None:
        why.append(what)
    return ok


# ---------------------------------------------------------------------------------------
# self-test

def _selftest():
    import hashlib
    import shutil
    import sys
    from . import build, run

    b = build.get_build("plain")
    env = run.base_env(b)
    fails = []

    def check(name, cond, extra=""):
        print("%-58s %s %s" % (name, "ok" if cond else "FAILED", extra))
        if not cond:
            fails.append(name)

    with run.Work("iotrace-selftest") as w:
        so = compile_shim(w.dir)
        img = w.path("t.img")
        with open(img, "wb") as f:
            f.truncate(8 << 20)
        r = run.run([b.tool("mke2fs"), "-q", "-F", "-t", "ext4", "-b", "1024", img], env=env)
        check("mke2fs scratch image", r.rc == 0, r.etext[-200:])
        src = w.path("src.bin")
        with open(src, "wb") as f:
            f.write(hashlib.sha256(b"iotrace").digest() * 400)
        n = [0]

        def traced(argv, kill_after=None, expect_sig=0):
            n[0] += 1
            pre = w.path("pre%d.img" % n[0])
            out = w.path("trace%d.bin" % n[0])
            shutil.copyfile(img, pre)
            e = dict(env)
            e.update(env_for(so, out, [img], kill_after=kill_after))
            r = run.run(argv, env=e)
            recs = parse(out)
            why = []
            ok = selfcheck(pre, recs, img, why=why)
            return r, recs, ok, why, pre

        # dd: lseek + write, no truncation
        r, recs, ok, why, pre = traced(["dd", "if=" + src, "of=" + img, "bs=1000", "seek=37",
                                        "count=7", "conv=notrunc", "status=none"])
        nm = sum(1 for x in recs if is_modifying(x))
        check("dd conv=notrunc: rc 0, 7 modifying records, selfcheck", r.rc == 0 and nm == 7 and ok,
              "rc=%s records=%d modifying=%d %s" % (r.rc, len(recs), nm, why))
        check("dd: write offsets derived from the file position",
              [x.offset for x in recs if x.op == OP_WRITE] == [37000 + 1000 * i for i in range(7)])
        # a dropped record must be noticed
        idx = [i for i, x in enumerate(recs) if is_modifying(x)]
        ov = replay(pre, recs, keep=set(idx) - {idx[3]})
        same, _ = ov.equals_file(img)
        ov.close()
        check("replay with one write dropped differs from the post-image", not same)
        # prefix replay to a file
        dst = w.path("prefix.img")
        replay(pre, recs, upto=idx[2] + 1, dst_path=dst).close()
        exp = bytearray(open(pre, "rb").read())
        data = open(src, "rb").read()
        exp[37000:40000] = data[:3000]
        check("prefix replay (3 of 7 writes) written to a file", open(dst, "rb").read() == bytes(exp))
        # dd that truncates (open O_TRUNC / ftruncate) and extends beyond the old end
        r, recs, ok, why, pre = traced(["dd", "if=" + src, "of=" + img, "bs=4096", "seek=2500",
                                        "count=2", "status=none"])
        check("dd with truncation + extension: selfcheck", r.rc == 0 and ok,
              "rc=%s size=%d %s %s" % (r.rc, os.path.getsize(img), why,
                                       [OPNAMES[x.op] for x in recs][:6]))
        # back to a filesystem; tune2fs -L (partial superblock write through lseek+write)
        with open(img, "wb") as f:
            f.truncate(8 << 20)
        run.run([b.tool("mke2fs"), "-q", "-F", "-t", "ext4", "-b", "1024", img], env=env)
        r, recs, ok, why, pre = traced([b.tool("tune2fs"), "-L", "iotrace", img])
        nm = sum(1 for x in recs if is_modifying(x))
        ns = sum(1 for x in recs if is_sync(x))
        check("tune2fs -L: rc 0, writes and fsyncs seen, selfcheck", r.rc == 0 and nm >= 1 and ns >= 1 and ok,
              "rc=%s modifying=%d syncs=%d %s" % (r.rc, nm, ns, why))
        check("tune2fs -L: label bytes at superblock offset 120",
              open(img, "rb").read()[1024 + 120:1024 + 127] == b"iotrace")
        # resize2fs grow (threads, pwrite64, file extension by lseek+write of one byte)
        r, recs, ok, why, pre = traced([b.tool("resize2fs"), img, "20000"])
        nm = sum(1 for x in recs if is_modifying(x))
        check("resize2fs grow 8M -> 20000 blocks: selfcheck", r.rc == 0 and ok and nm > 10,
              "rc=%s modifying=%d %s" % (r.rc, nm, why))
        # e2fsck -fy with a corrupted bitmap (pwrite-heavy) ; exit 1 expected
        with open(img, "r+b") as f:
            f.seek(1024 * 300)
            f.write(b"\xff" * 64)
        r, recs, ok, why, pre = traced([b.tool("e2fsck"), "-fy", img])
        check("e2fsck -fy: selfcheck", r.rc in (0, 1) and ok, "rc=%s %s" % (r.rc, why))
        # fault injection: SIGKILL right after the 3rd modifying record
        r, recs, ok, why, pre = traced([b.tool("tune2fs"), "-O", "^has_journal", img], kill_after=3)
        nm = sum(1 for x in recs if is_modifying(x))
        check("IOTRACE_KILL_AFTER=3: SIGKILL, exactly 3 modifying records, selfcheck",
              r.sig == 9 and nm == 3 and ok, "sig=%s modifying=%d %s" % (r.sig, nm, why))
    print("iotrace self-test: %s" % ("PASSED" if not fails else "FAILED: " + ", ".join(fails)))
    return 1 if fails else 0


if __name__ == "__main__":
    raise SystemExit(_selftest())
