"""Child process execution with watchdog and capped output, base environment,
work directories and a process-pool map."""
import concurrent.futures as cf
import hashlib
import os
import sys
import random
import shutil
import signal
import subprocess
import tempfile
import time

from . import build as _build


class Result:
    __slots__ = ("rc", "sig", "out", "err", "timed_out", "wall", "argv")

    def __init__(self, rc, sig, out, err, timed_out, wall, argv):
        self.rc, self.sig, self.out, self.err = rc, sig, out, err
        self.timed_out, self.wall, self.argv = timed_out, wall, argv

    @property
    def text(self):
        return self.out.decode("utf-8", "replace")

    @property
    def etext(self):
        return self.err.decode("utf-8", "replace")

    def brief(self, n=400):
        return {"argv": [os.path.basename(self.argv[0])] + list(self.argv[1:]),
                "rc": self.rc, "sig": self.sig, "timed_out": self.timed_out,
                "out": self.text[-n:], "err": self.etext[-n:]}


def base_env(b=None, extra=None):
    env = {
        "PATH": "/usr/local/sbin:/usr/local/bin:/usr/sbin:/usr/bin:/sbin:/bin",
        "HOME": "/nonexistent",
        "LC_ALL": "C", "LANG": "C", "TZ": "GMT0",
        "E2FSCK_CONFIG": "/dev/null",
        "MKE2FS_CONFIG": "/dev/null",
        "E2FSPROGS_FAKE_TIME": "1500000000",
        "E2FSCK_TIME": "1500000000",
        "E2FSPROGS_SKIP_PROGRESS": "yes",
        "EXT2FS_NO_MTAB_OK": "yes",
        "BLKID_FILE": "/dev/null",
        "E2FSPROGS_LIBMAGIC_SUPPRESS": "yes",
        "RESIZE2FS_FORCE_LAZY_ITABLE_INIT": "1",
        "MKE2FS_SKIP_PROGRESS": "yes",
        "MKE2FS_SKIP_CHECK_MSG": "yes",
    }
    if b is not None:
        conf = os.path.join(b.root, "misc", "mke2fs.conf")
        if not os.path.exists(conf):
            conf = os.path.join(b.root, "misc", "mke2fs.conf.in")
        env["MKE2FS_CONFIG"] = conf
        env.update(b.san_env())
    if extra:
        env.update(extra)
    return env


def run(argv, env=None, timeout=120, stdin=None, cap=1 << 20, cwd=None, stdin_file=None):
    """Run a child; never raises on failure.  Output capped at `cap` bytes per stream
    (the child keeps running; excess is discarded)."""
    t0 = time.time()
    of = tempfile.TemporaryFile()
    ef = tempfile.TemporaryFile()
    try:
        sin = subprocess.DEVNULL
        if stdin is not None:
            sin = subprocess.PIPE
        elif stdin_file is not None:
            sin = open(stdin_file, "rb")
        p = subprocess.Popen(argv, env=env, cwd=cwd, stdin=sin, stdout=of, stderr=ef,
                             start_new_session=True)
        timed_out = False
        try:
            p.communicate(stdin, timeout=timeout)
        except subprocess.TimeoutExpired:
            timed_out = True
            try:
                os.killpg(p.pid, signal.SIGKILL)
            except OSError:
                pass
            p.wait()
        if stdin_file is not None:
            sin.close()
        rc = p.returncode
        sig = 0
        if rc is not None and rc < 0:
            sig = -rc
        of.seek(0)
        ef.seek(0)
        out = of.read(cap)
        err = ef.read(cap)
        return Result(rc, sig, out, err, timed_out, time.time() - t0, list(argv))
    finally:
        of.close()
        ef.close()


def run_capped_pipe(argv, env=None, timeout=120, cap=8 << 20, cwd=None):
    """Run a child whose stdout is read through a pipe and closed after `cap` bytes
    (for commands whose output length is governed by on-disk size fields).  A resulting
    SIGPIPE death is reported with sig=SIGPIPE and flagged capped."""
    t0 = time.time()
    ef = tempfile.TemporaryFile()
    p = subprocess.Popen(argv, env=env, cwd=cwd, stdin=subprocess.DEVNULL,
                         stdout=subprocess.PIPE, stderr=ef, start_new_session=True)
    got = 0
    chunks = []
    capped = False
    timed_out = False
    import select
    deadline = t0 + timeout
    fd = p.stdout.fileno()
    while True:
        left = deadline - time.time()
        if left <= 0:
            timed_out = True
            break
        r, _, _ = select.select([fd], [], [], min(left, 1.0))
        if not r:
            if p.poll() is not None:
                break
            continue
        b = os.read(fd, 1 << 16)
        if not b:
            break
        got += len(b)
        if got <= (1 << 20):
            chunks.append(b)
        if got >= cap:
            capped = True
            break
    p.stdout.close()
    if timed_out:
        try:
            os.killpg(p.pid, signal.SIGKILL)
        except OSError:
            pass
    try:
        p.wait(timeout=max(1, deadline - time.time()))
    except subprocess.TimeoutExpired:
        timed_out = True
        try:
            os.killpg(p.pid, signal.SIGKILL)
        except OSError:
            pass
        p.wait()
    ef.seek(0)
    err = ef.read(1 << 20)
    ef.close()
    rc = p.returncode
    sig = -rc if rc is not None and rc < 0 else 0
    res = Result(rc, sig, b"".join(chunks), err, timed_out, time.time() - t0, list(argv))
    return res, capped


class Work:
    """Scratch directory for one check run; removed on close."""

    def __init__(self, tag):
        base = os.path.join(_build.scratch_base(), "work")
        os.makedirs(base, exist_ok=True)
        self.dir = tempfile.mkdtemp(prefix=tag + "-", dir=base)

    def path(self, *a):
        return os.path.join(self.dir, *a)

    def sub(self, name):
        p = os.path.join(self.dir, name)
        os.makedirs(p, exist_ok=True)
        return p

    def close(self):
        if os.environ.get("VERIF_KEEP_WORK"):       # triage aid: leave the scratch files behind
            sys.stderr.write("[work kept] %s\n" % self.dir)
            return
        shutil.rmtree(self.dir, ignore_errors=True)

    def __enter__(self):
        return self

    def __exit__(self, *a):
        self.close()


def sha256_file(path, length=None):
    h = hashlib.sha256()
    left = length
    with open(path, "rb") as f:
        while True:
            n = 1 << 20
            if left is not None:
                if left <= 0:
                    break
                n = min(n, left)
            b = f.read(n)
            if not b:
                break
            h.update(b)
            if left is not None:
                left -= len(b)
    return h.hexdigest()


def copy_sparse(src, dst):
    """Copy keeping holes (cp --sparse=always)."""
    subprocess.run(["cp", "--sparse=always", src, dst], check=True)


def nworkers():
    try:
        n = int(os.environ.get("VERIF_JOBS", "0"))
    except ValueError:
        n = 0
    return n or min(16, os.cpu_count() or 4)


def pmap(func, items, workers=None, chunksize=1):
    """Ordered parallel map over picklable (func, item).  func must be a top-level function."""
    items = list(items)
    if not items:
        return []
    workers = workers or nworkers()
    if workers <= 1 or len(items) == 1:
        return [func(x) for x in items]
    with cf.ProcessPoolExecutor(max_workers=workers) as ex:
        return list(ex.map(func, items, chunksize=chunksize))


def rng_for(seed, *parts):
    h = hashlib.sha256(("%d|" % seed + "|".join(str(p) for p in parts)).encode()).digest()
    return random.Random(int.from_bytes(h[:8], "big"))
