"""Shared pipeline: corrupt a corpus image, repair with e2fsck -fy, re-check with -fn,
optionally judge the result with the independent checker."""
import os
import re
import shutil

from . import run, corrupt
from .pyext4 import image as I
from .pyext4 import check as C

CLAIMS_SUCCESS_MASK = 4 | 8 | 16 | 32 | 128


def problem_codes(logpath):
    try:
        with open(logpath, "r", errors="replace") as f:
            txt = f.read()
    except OSError:
        return []
    return sorted(set(re.findall(r'<problem code="(0x[0-9a-f]+)"', txt)))


def materialise(case, base_path, dst):
    shutil.copyfile(base_path, dst)
    corrupt.apply_patches(dst, case.patches)


def pycheck(path):
    """Returns (list of problem keys, first details) from the independent checker; an
    unparsable primary superblock is reported as F4:unparsable."""
    try:
        with I.Image(path) as img:
            pr = C.check(img)
    except I.FormatError as e:
        return ["F4:unparsable-superblock"], [str(e)]
    except Exception as e:      # a crash of the oracle is a harness problem, not a verdict
        return ["ORACLE-CRASH"], [repr(e)[:300]]
    return sorted(set(p.key() for p in pr)), [repr(p) for p in pr[:6]]


def repair_pair(e2fsck, env, img, workdir, tag, timeout=180, mode=("-fy",)):
    """Run e2fsck <mode> then -fn.  Returns dict(rc1, rc2, codes1, codes2, out2, timed_out)."""
    l1 = os.path.join(workdir, tag + ".p1.xml")
    l2 = os.path.join(workdir, tag + ".p2.xml")
    r1 = run.run([e2fsck] + list(mode) + ["-E", "problem_log=" + l1, img], env=env, timeout=timeout)
    res = {"rc1": r1.rc, "sig1": r1.sig, "timed_out": r1.timed_out, "rc2": None, "codes1": problem_codes(l1),
           "codes2": [], "out1": r1.text[-1500:], "out2": ""}
    if r1.timed_out or r1.sig or r1.rc is None or (r1.rc & CLAIMS_SUCCESS_MASK):
        _rm(l1)
        return res
    r2 = run.run([e2fsck, "-fn", "-E", "problem_log=" + l2, img], env=env, timeout=timeout)
    res.update(rc2=r2.rc, sig2=r2.sig, timed_out=r2.timed_out, codes2=problem_codes(l2),
               out2=r2.text[-1500:])
    _rm(l1)
    _rm(l2)
    return res


def _rm(p):
    try:
        os.unlink(p)
    except OSError:
        pass


def minimise_case(u, case, profile, still_fails):
    """Greedy removal of corruption operators while still_fails(case) holds.
    Returns the smallest failing case found (1-minimal)."""
    keep = list(range(len(case.op_patches)))
    if len(keep) <= 1:
        return case
    changed = True
    cur = case
    while changed and len(keep) > 1:
        changed = False
        for i in list(keep):
            trial = [k for k in keep if k != i]
            c2 = u.subset(case, trial, profile)
            if still_fails(c2):
                keep = trial
                cur = c2
                changed = True
                break
    return cur
