"""Independent consistency checker, restricted to the five invariant families that
property C02 names:

 F1 blocks   every referenced block in range, outside fixed metadata, single owner
 F2 bitmaps  block/inode bitmaps and per-group counts equal actual usage
 F3 links    link counts equal directory references; every in-use inode reachable
 F4 shape    extent trees, directory blocks and htree indexes well-formed
 F5 csum     every metadata checksum verifies

check(img) -> list of Problem(family, code, detail).  It deliberately does not look at
i_blocks, i_size vs. mapping, timestamps, lost+found, global free counts or hints.
"""
import struct

from . import crc
from . import dirhash
from . import image as I


class Problem:
    __slots__ = ("family", "code", "detail")

    def __init__(self, family, code, detail=""):
        self.family, self.code, self.detail = family, code, detail

    def __repr__(self):
        return "%s:%s(%s)" % (self.family, self.code, self.detail)

    def key(self):
        return "%s:%s" % (self.family, self.code)


class Checker:
    def __init__(self, img, max_problems=200):
        self.img = img
        self.sb = img.sb
        self.problems = []
        self.max_problems = max_problems
        self.owner = {}          # cluster -> owner tag (first owner)
        self.fixed = set()       # clusters of fixed metadata
        self.fixed_blocks = {}   # block -> description
        self.used_inodes = set()
        self.dir_refs = {}       # ino -> number of directory entries naming it
        self.subdirs = {}        # dir ino -> number of subdirectories
        self.parent = {}
        self.reach = set()
        self.shared_xattr_blocks = {}   # block -> number of inodes referencing it
        self.csum_verified = {}         # object kind -> number of checksums recomputed and compared

    def cv(self, kind):
        self.csum_verified[kind] = self.csum_verified.get(kind, 0) + 1

    _quiet = False

    def p(self, fam, code, detail=""):
        if self._quiet:
            return
        if len(self.problems) < self.max_problems:
            self.problems.append(Problem(fam, code, str(detail)[:200]))

    # -------------------------------------------------------------------------
    def c_of(self, b):
        return b // self.img.ratio if self.img.ratio > 1 else b

    def layout(self):
        """Fixed metadata: superblock/descriptor copies, reserved GDT, bitmaps, itables,
        MMP.  Returns per-group set of fixed blocks."""
        img, sb = self.img, self.sb
        gds = img.group_descs()
        fixed = self.fixed_blocks
        meta_bg = sb.has_incompat("meta_bg")
        for g in range(img.groups):
            first = img.group_first_block(g)
            if img.bg_has_super(g):
                sbb = img.sb_block(g)
                fixed[sbb] = "sb%d" % g
                if g == 0 and sbb == 1 and first == 0:
                    fixed[0] = "boot"
                old_desc = img.gdt_blocks
                if meta_bg:
                    old_desc = min(sb.s_first_meta_bg, img.gdt_blocks)
                for i in range(old_desc):
                    fixed[sbb + 1 + i] = "gdt%d" % g
                if sb.has_compat("resize_inode") or True:
                    # reserved GDT blocks follow the descriptor blocks (when not meta_bg)
                    if not meta_bg or sb.s_first_meta_bg > 0:
                        for i in range(sb.s_reserved_gdt_blocks):
                            b = sbb + 1 + old_desc + i
                            if b < first + img.group_blocks(g):
                                fixed[b] = "rgdt%d" % g
            elif g == 0 and first == 0 and img.bs == 1024:
                pass
            if meta_bg:
                mg = g // img.descs_per_block
                if mg >= sb.s_first_meta_bg and mg < img.gdt_blocks:
                    pos = g % img.descs_per_block
                    if pos in (0, 1, img.descs_per_block - 1):
                        b = first + (1 if img.bg_has_super(g) else 0)
                        if g == 0 and img.sb_block(0) == 1 and first == 0:
                            b = 2
                        if b < img.blocks_count:
                            fixed[b] = "mgdt%d" % g
        if img.sb_block(0) == 1 and sb.s_first_data_block == 0 and img.bs == 1024:
            fixed[0] = "boot"
        elif sb.s_first_data_block == 0 and img.bs > 1024:
            pass    # block 0 holds boot sector + superblock: already fixed as sb0
        nit = img.itable_blocks()
        for g, gd in enumerate(gds):
            for name, b in (("bbm", gd.block_bitmap), ("ibm", gd.inode_bitmap)):
                if b < sb.s_first_data_block or b >= img.blocks_count:
                    self.p("F1", "bitmap-location-out-of-range", "group %d %s %d" % (g, name, b))
                    continue
                if b in fixed and not fixed[b].startswith(("bbm", "ibm", "itb")) is False:
                    pass
                if b in fixed:
                    self.p("F1", "metadata-overlap", "group %d %s at %d collides with %s" %
                           (g, name, b, fixed[b]))
                fixed[b] = "%s%d" % (name, g)
            it = gd.inode_table
            if it < sb.s_first_data_block or it + nit > img.blocks_count:
                self.p("F1", "itable-location-out-of-range", "group %d at %d" % (g, it))
                continue
            for b in range(it, it + nit):
                if b in fixed:
                    self.p("F1", "metadata-overlap", "group %d itable block %d collides with %s" %
                           (g, b, fixed[b]))
                    break
                fixed[b] = "itb%d" % g
        if sb.has_incompat("mmp") and sb.s_mmp_block:
            if sb.s_mmp_block >= img.blocks_count:
                self.p("F1", "mmp-block-out-of-range", sb.s_mmp_block)
            else:
                self.mmp_block = sb.s_mmp_block
        for b in fixed:
            self.fixed.add(self.c_of(b))

    # -------------------------------------------------------------------------
    def claim(self, blocks, tag, ino):
        """Register data/metadata blocks of an inode; detects range, fixed-metadata overlap
        and double ownership (at cluster granularity for bigalloc)."""
        img = self.img
        lo = self.sb.s_first_data_block
        seen_clusters = set()
        for b in blocks:
            if b < lo or b >= img.blocks_count:
                self.p("F1", "block-out-of-range", "inode %d block %d" % (ino, b))
                continue
            if b in self.fixed_blocks:
                self.p("F1", "block-in-fixed-metadata", "inode %d block %d is %s" %
                       (ino, b, self.fixed_blocks[b]))
                continue
            c = self.c_of(b)
            if c in seen_clusters:
                continue
            seen_clusters.add(c)
            prev = self.owner.get(c)
            if prev is not None and prev != tag:
                if not self.sb.has_ro("shared_blocks"):
                    self.p("F1", "block-multiply-owned", "cluster %d: %s and %s" % (c, prev, tag))
            else:
                self.owner[c] = tag

    def inode_blocks(self, i):
        """All blocks an in-use inode owns: mapped + mapping metadata (+ xattr block,
        handled by caller).  Returns (list_of_blocks, mapping) or None when malformed."""
        img = self.img
        try:
            mapping, meta = img.block_map(i, strict=False)
        except I.FormatError as e:
            self.p("F4", "mapping-malformed", "inode %d: %s" % (i.ino, e))
            if not self._quiet:
                self.mapping_failed = True
            return None
        blocks = list(meta)
        for l, pb, c, un in mapping:
            if c > (1 << 22):
                self.p("F4", "extent-absurd-length", i.ino)
                return None
            if pb + c > img.blocks_count or pb < self.sb.s_first_data_block:
                self.p("F1", "block-out-of-range", "inode %d extent %d+%d" % (i.ino, pb, c))
                continue
            blocks.extend(range(pb, pb + c))
        return blocks, mapping

    def check_extent_shape(self, i):
        """F4 for extent trees: sorted, non-overlapping, index keys consistent, checksums."""
        img = self.img
        seed = i.csum_seed() if img.has_csum else None

        def node(buf, blkno, lo_bound, is_root, skip_csum=False):
            magic, entries, mx, depth, gen = struct.unpack_from("<HHHHI", buf, 0)
            if magic != I.EXT_MAGIC:
                self.p("F4", "extent-bad-magic", "inode %d node %d" % (i.ino, blkno))
                return
            if is_root and depth > 5:
                self.p("F4", "extent-depth-exceeds-5", "inode %d depth %d" % (i.ino, depth))
            cap = (len(buf) - 12) // 12
            if mx > cap or entries > mx or (mx == 0):
                self.p("F4", "extent-bad-header", "inode %d node %d" % (i.ino, blkno))
                return
            if not is_root and seed is not None and not skip_csum:
                off = 12 + 12 * mx
                if off + 4 <= len(buf):
                    want = crc.crc32c(seed, buf[:off])
                    got = struct.unpack_from("<I", buf, off)[0]
                    self.cv("extent_block")
                    if want != got:
                        self.p("F5", "extent-block-csum", "inode %d block %d" % (i.ino, blkno))
            prev_end = lo_bound
            for k in range(entries):
                if depth == 0:
                    lb, ln, hi, lo = struct.unpack_from("<IHHI", buf, 12 + 12 * k)
                    if ln > 32768:
                        ln -= 32768
                    if ln == 0:
                        self.p("F4", "extent-zero-length", "inode %d" % i.ino)
                        continue
                    if lb < prev_end:
                        self.p("F4", "extent-out-of-order", "inode %d lblk %d" % (i.ino, lb))
                    prev_end = lb + ln
                else:
                    lb, lo, hi, _ = struct.unpack_from("<IIHH", buf, 12 + 12 * k)
                    if lb < prev_end:
                        self.p("F4", "extent-index-out-of-order", "inode %d lblk %d" % (i.ino, lb))
                    child = lo | (hi << 32)
                    if child < self.sb.s_first_data_block or child >= img.blocks_count:
                        self.p("F1", "block-out-of-range", "inode %d extent node %d" % (i.ino, child))
                        continue
                    cb = img.blk(child)
                    cm, ce, cmx, cdepth, _g = struct.unpack_from("<HHHHI", cb, 0)
                    if cm == I.EXT_MAGIC and cdepth != depth - 1:
                        self.p("F4", "extent-depth-mismatch", "inode %d node %d" % (i.ino, child))
                        cb = bytearray(cb)
                        struct.pack_into("<H", cb, 6, depth - 1)
                        cb = bytes(cb)
                        node(cb, child, lb, False, skip_csum=True)
                        prev_end = max(prev_end, lb + 1)
                        continue
                    node(cb, child, lb, False)
                    prev_end = max(prev_end, lb + 1)

        node(i.i_block, 0, 0, True)

    # -------------------------------------------------------------------------
    def scan_inodes(self):
        img, sb = self.img, self.sb
        first_ino = sb.first_ino
        gds = img.group_descs()
        self.inodes = {}
        # every reserved inode is an allocated inode and owns what it references (e2fsck walks the
        # blocks and the xattr block of all of them; 5 = boot loader inode, 6, 9, 10 have no defined
        # content but keep what they hold)
        special = set(range(1, min(first_ino, 4096))) | {I.BAD_INO, I.ROOT_INO, I.RESIZE_INO, I.JOURNAL_INO}
        for q in (sb.s_usr_quota_inum, sb.s_grp_quota_inum, sb.s_prj_quota_inum):
            if q:
                special.add(q)
        if sb.has_compat("orphan_file") and sb.s_orphan_file_inum:
            special.add(sb.s_orphan_file_inum)
        self.special = special
        # those whose i_file_acl nobody interprets
        self.named_special = {I.BAD_INO, I.ROOT_INO, I.RESIZE_INO, I.JOURNAL_INO} | \
            {q for q in (sb.s_usr_quota_inum, sb.s_grp_quota_inum, sb.s_prj_quota_inum) if q} | \
            ({sb.s_orphan_file_inum} if sb.has_compat("orphan_file") and sb.s_orphan_file_inum else set())
        ipg = sb.s_inodes_per_group
        self.bad_blocks = set()
        self.in_bad_block = set()
        try:
            bbi = img.inode(I.BAD_INO)
            if bbi.mode or any(bbi.i_block):
                mapping, meta = img.block_map(bbi)
                for l, pb, c, un in mapping:
                    if c < 100000:
                        self.bad_blocks.update(range(pb, pb + c))
        except I.FormatError:
            pass
        for g, gd in enumerate(gds):
            if img.has_gdt_csum and (gd.flags & I.BG_INODE_UNINIT):
                continue
            try:
                if gd.inode_table <= 0 or gd.inode_table + img.itable_blocks() > img.blocks_count:
                    continue
                tbl = img.blk(gd.inode_table, img.itable_blocks())
            except I.FormatError:
                continue
            isz = img.inode_size
            limit = ipg
            if img.has_gdt_csum and gd.itable_unused <= ipg and img.gd_csum(g) == gd.checksum:
                # inodes beyond the in-use part of the table are never initialised
                limit = ipg - gd.itable_unused
            for idx in range(limit):
                ino = g * ipg + idx + 1
                raw = tbl[idx * isz:(idx + 1) * isz]
                links = struct.unpack_from("<H", raw, 26)[0]
                if ino >= first_ino and self.bad_blocks and \
                        gd.inode_table + (idx * isz) // img.bs in self.bad_blocks:
                    self.used_inodes.add(ino)
                    self.in_bad_block.add(ino)
                    continue
                if ino >= first_ino:
                    if links == 0:
                        continue
                elif ino not in special:
                    continue        # other reserved inodes carry no defined content
                elif ino != I.ROOT_INO:
                    mode = struct.unpack_from("<H", raw, 0)[0]
                    if mode == 0 and not any(raw[40:100]) and not any(raw[104:108]):
                        continue
                if gd.inode_table + (idx * isz) // img.bs in self.bad_blocks:
                    # inode lives in a block on the bad-block list: it does not exist, but
                    # its bitmap bit stays set so that it is never allocated
                    if ino >= first_ino:
                        self.used_inodes.add(ino)
                        self.in_bad_block.add(ino)
                    continue
                self.inodes[ino] = I.Inode(img, ino, raw)

    def check_inode(self, i):
        img, sb = self.img, self.sb
        ino = i.ino
        self.used_inodes.add(ino)
        if img.has_csum:
            self.cv("inode")
            if i.compute_csum() != i.stored_csum():
                self.p("F5", "inode-csum", "inode %d" % ino)
        fmt = i.fmt
        has_blocks = False
        if ino < sb.first_ino and ino not in self.named_special:
            # reserved inodes without a defined role (5, 6, 9, 10): what they validly reference is
            # theirs (e2fsck counts it), what they hold otherwise is nobody's business
            self._quiet = True
            try:
                self._check_inode_refs(i, fmt)
            finally:
                self._quiet = False
            return
        self._check_inode_refs(i, fmt)

    def _check_inode_refs(self, i, fmt):
        img, sb = self.img, self.sb
        ino = i.ino
        has_blocks = False
        if ino == I.RESIZE_INO:
            # its blocks are the reserved GDT blocks (fixed metadata) plus one dind block
            dind = struct.unpack_from("<I", i.i_block, 13 * 4)[0]
            if dind:
                if dind >= img.blocks_count or dind < sb.s_first_data_block:
                    self.p("F1", "block-out-of-range", "resize inode dind %d" % dind)
                else:
                    self.claim([dind], "ino7", 7)
            return
        if ino == I.BAD_INO:
            try:
                mapping, meta = img.block_map(i)
                blks = list(meta)
                for l, pb, c, un in mapping:
                    blks.extend(range(pb, pb + c))
                for b in blks:
                    if sb.s_first_data_block <= b < img.blocks_count:
                        self.owner.setdefault(self.c_of(b), "badblocks")
            except I.FormatError:
                pass
            return
        if i.flags & I.FL_INLINE_DATA:
            has_blocks = False
        elif fmt in (I.S_IFREG, I.S_IFDIR) or (fmt == I.S_IFLNK and not self.is_fast_symlink(i)):
            has_blocks = True
        elif ino in self.named_special and ino != I.ROOT_INO:
            has_blocks = True       # (the other reserved inodes map blocks only with a file type, like everybody)
        if has_blocks:
            if i.flags & I.FL_EXTENTS:
                self.check_extent_shape(i)
            r = self.inode_blocks(i)
            if r is not None:
                blocks, mapping = r
                self.claim(blocks, "ino%d" % ino, ino)
                i._mapping = mapping
        # xattr block (nobody interprets i_file_acl of the journal/resize/quota/orphan inodes)
        if i.file_acl and not (ino in self.named_special and ino != I.ROOT_INO):
            b = i.file_acl
            if b < sb.s_first_data_block or b >= img.blocks_count:
                self.p("F1", "block-out-of-range", "inode %d xattr block %d" % (ino, b))
            elif b in self.fixed_blocks:
                self.p("F1", "block-in-fixed-metadata", "inode %d xattr block %d" % (ino, b))
            else:
                n = self.shared_xattr_blocks.get(b, 0)
                self.shared_xattr_blocks[b] = n + 1
                if n == 0:
                    c = self.c_of(b)
                    prev = self.owner.get(c)
                    if prev is not None and not (img.ratio > 1 and prev == "ino%d" % ino):
                        self.p("F1", "block-multiply-owned", "xattr block %d: %s" % (b, prev))
                    else:
                        self.owner[c] = "xattr%d" % b if img.ratio == 1 else "ino%d" % ino
                    self.check_xattr_block(b)

    def is_fast_symlink(self, i):
        ea_blocks = (self.img.bs // 512) * self.img.ratio if i.file_acl else 0
        return i.size < 60 and i.i_blocks - ea_blocks == 0

    def check_xattr_block(self, b):
        img = self.img
        buf = img.blk(b)
        magic, refc, nblk, hh, cs = struct.unpack_from("<IIIII", buf, 0)
        if magic != I.XATTR_MAGIC:
            self.p("F4", "xattr-block-bad-magic", b)
            return
        if img.has_csum:
            tmp = bytearray(buf)
            tmp[16:20] = b"\0\0\0\0"
            want = crc.crc32c(self.sb.csum_seed(), struct.pack("<Q", b))
            want = crc.crc32c(want, bytes(tmp))
            self.cv("xattr_block")
            if want != cs:
                self.p("F5", "xattr-block-csum", b)

    # -------------------------------------------------------------------------
    def check_dir(self, i):
        img, sb = self.img, self.sb
        ino = i.ino
        entries = []
        has_csum = img.has_csum
        seed = i.csum_seed() if has_csum else None
        if i.flags & I.FL_INLINE_DATA:
            try:
                ents = img.list_dir(i, strict=True)
            except I.FormatError as e:
                self.p("F4", "dir-inline-malformed", "dir %d: %s" % (ino, e))
                return
            self.note_entries(i, ents)
            return
        mapping = getattr(i, "_mapping", None)
        if mapping is None:
            return
        blocks = {}
        for l, pb, c, un in mapping:
            for k in range(c):
                blocks[l + k] = pb + k
        nblocks = (i.size + img.bs - 1) // img.bs
        is_dx = bool(i.flags & I.FL_INDEX) and sb.has_compat("dir_index")
        dx_interior = set()
        dx_leaf_range = {}
        if is_dx and 0 not in blocks:
            is_dx = False
        if is_dx:
            ok = self.parse_htree(i, blocks, nblocks, dx_interior, dx_leaf_range, seed)
            if not ok:
                is_dx = False
                dx_interior = set()
                dx_leaf_range = {}
                return
        ents = []
        hv = None
        if is_dx:
            hv = self.dx_hash_version
        for l in sorted(blocks):
            if l >= nblocks:
                continue
            pb = blocks[l]
            if pb >= img.blocks_count or pb < sb.s_first_data_block:
                continue
            buf = img.blk(pb)
            if l in dx_interior:
                if l != 0:
                    continue
                # the root block also carries '.' and '..'
                d = self._dirents_of_root(buf, ino)
                if d is None:
                    return
                ents.extend(d)
                continue
            try:
                des = img.parse_dirents(buf, strict=True)
            except I.FormatError as e:
                self.p("F4", "dir-block-malformed", "dir %d lblk %d: %s" % (ino, l, e))
                continue
            tail_ok = False
            if has_csum:
                # the last 12 bytes must be the checksum tail
                if des:
                    o, tino, trl, tnl, tft, _n = des[-1]
                    if o == img.bs - 12 and tino == 0 and trl == 12 and tnl == 0 and tft == 0xDE:
                        tail_ok = True
                        got = struct.unpack_from("<I", buf, img.bs - 4)[0]
                        want = crc.crc32c(seed, buf[:img.bs - 12])
                        self.cv("dir_leaf")
                        if got != want:
                            self.p("F5", "dirent-csum", "dir %d lblk %d" % (ino, l))
                        des = des[:-1]
                if not tail_ok:
                    self.p("F5", "dirent-csum-tail-missing", "dir %d lblk %d" % (ino, l))
            for (o, cino, rl, nl, ft, name) in des:
                if cino == 0:
                    continue
                if nl == 0:
                    self.p("F4", "dirent-empty-name", "dir %d lblk %d" % (ino, l))
                    continue
                ents.append((name, cino, ft))
                if l in dx_leaf_range and name not in (b".", b".."):
                    lo, hi = dx_leaf_range[l]
                    try:
                        h, _m = dirhash.dirhash(hv, name, sb.s_hash_seed)
                    except ValueError:
                        continue
                    if h < (lo & ~1) or (hi is not None and h > hi):
                        self.p("F4", "htree-entry-outside-hash-range",
                               "dir %d lblk %d name %r" % (ino, l, name[:20]))
            if l == 0 and not is_dx:
                names = [e[0] for e in des if e[1] != 0][:2] if False else None
        if is_dx:
            # every leaf block below i_size must be referenced by the index
            for l in sorted(blocks):
                if l < nblocks and l not in dx_interior and l not in dx_leaf_range:
                    self.p("F4", "htree-block-unreferenced", "dir %d lblk %d" % (ino, l))
        self.note_entries(i, ents)

    def _dirents_of_root(self, buf, ino):
        try:
            d1 = struct.unpack_from("<IHBB", buf, 0)
            d2 = struct.unpack_from("<IHBB", buf, 12)
        except struct.error:
            return None
        out = []
        if d1[0]:
            out.append((bytes(buf[8:8 + d1[2]]), d1[0], d1[3]))
        if d2[0]:
            out.append((bytes(buf[20:20 + d2[2]]), d2[0], d2[3]))
        return out

    def parse_htree(self, i, blocks, nblocks, interior, leaf_range, seed):
        """Validate the index; fills interior (set of lblk) and leaf_range {lblk: (lo, hi)}.
        Returns False when the index is unusable."""
        img, sb = self.img, self.sb
        ino = i.ino
        bs = img.bs
        root = img.blk(blocks[0])
        # dot / dotdot
        d1 = struct.unpack_from("<IHBB", root, 0)
        d2 = struct.unpack_from("<IHBB", root, 12)
        if d1[1] != 12 or d1[2] != 1 or root[8:9] != b"." or \
                d2[2] != 2 or root[20:22] != b".." or img.rec_len(d2[1]) != bs - 12:
            self.p("F4", "htree-root-bad-dots", "dir %d" % ino)
            return False
        zero, hv, ilen, levels, uflags = struct.unpack_from("<IBBBB", root, 24)
        if zero != 0 or ilen != 8:
            self.p("F4", "htree-root-bad-info", "dir %d" % ino)
            return False
        if hv not in (0, 1, 2):
            if hv == 6 and (i.flags & I.FL_CASEFOLD):
                return False    # siphash dirs (casefold+encrypt): not modelled
            self.p("F4", "htree-bad-hash-version", "dir %d version %d" % (ino, hv))
            return False
        if sb.s_flags & 2:
            hv += 3
        self.dx_hash_version = hv
        maxlevels = 3 if sb.has_incompat("large_dir") else 2
        if levels > maxlevels:
            self.p("F4", "htree-too-deep", "dir %d levels %d" % (ino, levels))
            return False
        tail = 8 if img.has_csum else 0
        seen = set([0])
        interior.add(0)
        ok = [True]

        def node(buf, lblk, count_off, level, lo, hi):
            limit, count = struct.unpack_from("<HH", buf, count_off)
            want_limit = (bs - count_off - tail) // 8
            if limit != want_limit or count == 0 or count > limit:
                self.p("F4", "htree-bad-count-limit", "dir %d lblk %d limit %d count %d" %
                       (ino, lblk, limit, count))
                ok[0] = False
                return
            if img.has_csum:
                toff = count_off + limit * 8
                t_res, t_csum = struct.unpack_from("<II", buf, toff)
                c = crc.crc32c(seed, buf[:count_off + count * 8])
                c = crc.crc32c(c, struct.pack("<I", t_res))
                c = crc.crc32c(c, b"\0\0\0\0")
                self.cv("dx_node")
                if c != t_csum:
                    self.p("F5", "dx-node-csum", "dir %d lblk %d" % (ino, lblk))
            ents = []
            for k in range(count):
                h, b = struct.unpack_from("<II", buf, count_off + 8 * k)
                if k == 0:
                    h = lo
                ents.append((h, b & 0x0FFFFFFF))
            prev = None
            for k, (h, b) in enumerate(ents):
                if prev is not None and h <= prev and k > 0:
                    # equal hashes are only legal with the continuation bit
                    if h < prev:
                        self.p("F4", "htree-hash-out-of-order", "dir %d lblk %d" % (ino, lblk))
                prev = h
                nxt = ents[k + 1][0] if k + 1 < count else hi
                # a set low bit on the next hash means a collision chain continues there
                hi_k = None if nxt is None else ((nxt | 1) if (nxt & 1) else nxt - 1)
                if nxt is not None and (nxt & 1):
                    hi_k = nxt | 1
                if b in seen or b >= nblocks or b not in blocks:
                    self.p("F4", "htree-bad-block-ref", "dir %d lblk %d -> %d" % (ino, lblk, b))
                    ok[0] = False
                    continue
                seen.add(b)
                if level > 0:
                    interior.add(b)
                    pb = blocks[b]
                    if pb >= img.blocks_count:
                        ok[0] = False
                        continue
                    cb = img.blk(pb)
                    fi, frl = struct.unpack_from("<IH", cb, 0)
                    if fi != 0 or img.rec_len(frl) != bs:
                        self.p("F4", "htree-interior-bad-header", "dir %d lblk %d" % (ino, b))
                        ok[0] = False
                        continue
                    node(cb, b, 8, level - 1, h, nxt)
                else:
                    leaf_range[b] = (h, hi_k)

        node(root, 0, 32, levels, 0, None)
        return ok[0]

    def note_entries(self, i, ents):
        ino = i.ino
        sb = self.sb
        names = [e[0] for e in ents]
        if not ents or ents[0][0] != b"." or ents[0][1] != ino:
            self.p("F4", "dir-missing-dot", "dir %d" % ino)
        if len(ents) < 2 or ents[1][0] != b"..":
            self.p("F4", "dir-missing-dotdot", "dir %d" % ino)
        else:
            self.parent[ino] = ents[1][1]
        nsub = 0
        for k, (name, cino, ft) in enumerate(ents):
            if cino < 1 or cino > sb.s_inodes_count:
                self.p("F4", "dirent-inode-out-of-range", "dir %d name %r -> %d" % (ino, name[:20], cino))
                continue
            if name == b"." and k == 0:
                self.dir_refs[cino] = self.dir_refs.get(cino, 0) + 1
                continue
            if name == b".." and k == 1:
                self.dir_refs[cino] = self.dir_refs.get(cino, 0) + 1
                continue
            if name in (b".", b".."):
                self.p("F4", "dir-extra-dot-entry", "dir %d" % ino)
                continue
            if (b"/" in name or b"\0" in name) and not (i.flags & I.FL_ENCRYPT):
                self.p("F4", "dirent-illegal-char", "dir %d" % ino)
            self.dir_refs[cino] = self.dir_refs.get(cino, 0) + 1
            self.children.setdefault(ino, []).append(cino)

    # -------------------------------------------------------------------------
    def check_links(self):
        img, sb = self.img, self.sb
        first_ino = sb.first_ino
        # reachability from the root over directory entries
        reach = set([I.ROOT_INO])
        stack = [I.ROOT_INO]
        while stack:
            d = stack.pop()
            for c in self.children.get(d, []):
                if c not in reach:
                    reach.add(c)
                    if c in self.inodes and self.inodes[c].is_dir():
                        stack.append(c)
        ea_inodes = set()
        for ino, i in self.inodes.items():
            if i.flags & I.FL_EA_INODE:
                ea_inodes.add(ino)
        for ino, i in self.inodes.items():
            if ino < first_ino and ino != I.ROOT_INO:
                continue
            if ino in self.special and ino != I.ROOT_INO:
                continue
            if ino in ea_inodes:
                continue
            refs = self.dir_refs.get(ino, 0)
            if ino not in reach:
                self.p("F3", "inode-unreachable", "inode %d" % ino)
                continue
            if i.is_dir():
                # '.' + entry in parent + '..' of each subdirectory
                # dir_nlink: past 65000 links the count is pinned to 1, and it stays 1 when
                # sub-directories are removed again (kernel ext4_dec_count(); e2fsck pass 4 accepts it)
                if i.links == 1 and sb.has_ro("dir_nlink") and refs >= 2:
                    continue
                if refs != i.links:
                    # root: '.' and '..' both point to itself and there is no parent entry
                    self.p("F3", "dir-link-count", "dir %d links %d refs %d" % (ino, i.links, refs))
            else:
                if refs != i.links:
                    self.p("F3", "link-count", "inode %d links %d refs %d" % (ino, i.links, refs))
        # entries naming inodes that are not in use
        for ino, n in self.dir_refs.items():
            if ino not in self.inodes and ino not in self.in_bad_block:
                self.p("F3", "dirent-to-unused-inode", "inode %d" % ino)
        # a directory's '..' must name the directory that lists it
        for d, par in self.parent.items():
            if d == I.ROOT_INO:
                if par != I.ROOT_INO:
                    self.p("F3", "root-dotdot", par)
                continue
            if d in reach and d not in self.children.get(par, []):
                self.p("F3", "dotdot-mismatch", "dir %d .. -> %d" % (d, par))

    # -------------------------------------------------------------------------
    def check_bitmaps(self):
        img, sb = self.img, self.sb
        gds = img.group_descs()
        ratio = img.ratio
        cpg = sb.s_clusters_per_group
        ipg = sb.s_inodes_per_group
        first_ino = sb.first_ino
        used_clusters = set(self.owner) | self.fixed
        if getattr(self, "mmp_block", None):
            used_clusters.add(self.c_of(self.mmp_block))
        total_clusters = (img.blocks_count - sb.s_first_data_block + ratio - 1) // ratio \
            if ratio == 1 else (img.blocks_count + ratio - 1) // ratio
        c0 = self.c_of(sb.s_first_data_block)
        for g, gd in enumerate(gds):
            gfirst_c = c0 + g * cpg
            n = min(cpg, total_clusters + c0 - gfirst_c) if ratio > 1 else img.group_blocks(g)
            bm = img.block_bitmap(g)
            used_here = 0
            mism = None
            for k in range(n):
                c = gfirst_c + k
                u = c in used_clusters
                if u:
                    used_here += 1
                if bm is not None:
                    if (k >> 3) >= len(bm):
                        # geometry fields contradict each other (clusters per group vs block size)
                        if mism is None:
                            mism = (c, 0)
                        break
                    bit = bm[k >> 3] >> (k & 7) & 1
                    if bit != u and mism is None:
                        mism = (c, bit)
            if bm is None:
                # BLOCK_UNINIT: only fixed metadata may be in use in this group
                for k in range(n):
                    c = gfirst_c + k
                    if c in self.owner:
                        mism = (c, 0)
                        break
            if mism:
                self.p("F2", "block-bitmap-differs", "group %d cluster %d bit %d" %
                       (g, mism[0], mism[1]))
            if img.has_csum and bm is not None:
                raw = img.blk(gd.block_bitmap)
                want = crc.crc32c(sb.csum_seed(), raw[:cpg // 8])
                if img.desc_size < 64:
                    want &= 0xFFFF
                self.cv("block_bitmap")
                if want != gd.block_bitmap_csum:
                    self.p("F5", "block-bitmap-csum", "group %d" % g)
            free = n - used_here
            if free != gd.free_blocks:
                self.p("F2", "group-free-blocks-count", "group %d stored %d actual %d" %
                       (g, gd.free_blocks, free))
            # inodes
            ibm = img.inode_bitmap(g)
            uninit = img.has_gdt_csum and (gd.flags & I.BG_INODE_UNINIT)
            used_i = 0
            dirs = 0
            imis = None
            for k in range(ipg):
                ino = g * ipg + k + 1
                u = ino in self.used_inodes or ino < first_ino
                if u:
                    used_i += 1
                    ii = self.inodes.get(ino)
                    if ii is not None and ii.is_dir():
                        dirs += 1
                bit = ibm[k >> 3] >> (k & 7) & 1
                if bit != u and imis is None:
                    imis = (ino, bit)
            if imis:
                self.p("F2", "inode-bitmap-differs", "group %d inode %d bit %d" % (g, imis[0], imis[1]))
            if img.has_csum and not uninit:
                raw = img.blk(gd.inode_bitmap)
                want = crc.crc32c(sb.csum_seed(), raw[:ipg // 8])
                if img.desc_size < 64:
                    want &= 0xFFFF
                self.cv("inode_bitmap")
                if want != gd.inode_bitmap_csum:
                    self.p("F5", "inode-bitmap-csum", "group %d" % g)
            if ipg - used_i != gd.free_inodes:
                self.p("F2", "group-free-inodes-count", "group %d stored %d actual %d" %
                       (g, gd.free_inodes, ipg - used_i))
            if dirs != gd.used_dirs:
                self.p("F2", "group-used-dirs-count", "group %d stored %d actual %d" %
                       (g, gd.used_dirs, dirs))

    def check_super_and_descs(self):
        img, sb = self.img, self.sb
        if img.has_csum:
            self.cv("superblock")
        if img.has_csum and not sb.checksum_ok():
            self.p("F5", "superblock-csum")
        if img.has_gdt_csum:
            for g, gd in enumerate(img.group_descs()):
                self.cv("group_desc_crc32c" if img.has_csum else "group_desc_crc16")
                if img.gd_csum(g) != gd.checksum:
                    self.p("F5", "group-desc-csum", "group %d" % g)
        if img.has_csum and sb.has_incompat("mmp") and sb.s_mmp_block and \
                sb.s_mmp_block < img.blocks_count:
            b = img.blk(sb.s_mmp_block)
            magic = struct.unpack_from("<I", b, 0)[0]
            if magic == 0x004D4D50:
                want = crc.crc32c(sb.csum_seed(), b[:1020])
                self.cv("mmp")
                if want != struct.unpack_from("<I", b, 1020)[0]:
                    self.p("F5", "mmp-csum")

    # -------------------------------------------------------------------------
    def run(self):
        self.children = {}
        try:
            self.check_super_and_descs()
            self.layout()
            self.scan_inodes()
            for ino in sorted(self.inodes):
                self.check_inode(self.inodes[ino])
            for ino in sorted(self.inodes):
                i = self.inodes[ino]
                if i.is_dir() and ino != I.BAD_INO and ino != I.RESIZE_INO and \
                        not (ino in self.special and ino != I.ROOT_INO):
                    self.check_dir(i)
            self.check_links()
            if not getattr(self, "mapping_failed", False):
                self.check_bitmaps()
        except I.FormatError as e:
            self.p("F4", "unparsable", str(e))
        return self.problems


def check(img, max_problems=200):
    return Checker(img, max_problems).run()


def check_with_stats(img, max_problems=200):
    c = Checker(img, max_problems)
    pr = c.run()
    return pr, c.csum_verified


def check_path(path):
    with I.Image(path) as img:
        return check(img)
