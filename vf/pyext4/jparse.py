"""Independent JBD2 log walker: parses the journal of an image (internal journal inode) from
s_start / s_sequence and recomputes every checksum the jbd2 format defines for checksum
versions 2 and 3: journal superblock, descriptor-block tail, per-tag data checksum (over the
block *as stored in the log*, i.e. after escaping), revoke-block tail, commit block.
Shares nothing with libext2fs / e2fsck's recovery code."""
import struct

from . import crc

MAGIC = 0xC03B3998
BT_DESC, BT_COMMIT, BT_SB1, BT_SB2, BT_REVOKE = 1, 2, 3, 4, 5
F_ESCAPE, F_SAME_UUID, F_DELETED, F_LAST = 1, 2, 4, 8
INCOMPAT_REVOKE, INCOMPAT_64BIT, INCOMPAT_ASYNC, INCOMPAT_V2, INCOMPAT_V3 = 1, 2, 4, 8, 0x10
COMPAT_CHECKSUM = 1


class JournalError(Exception):
    pass


def _c(seed, data):
    return crc.crc32c(seed, data)


def walk(img, max_txn=64):
    """img: pyext4 Image with an internal journal.  Returns (problems, stats, transactions);
    problems = list of strings, transactions = list of dicts(tid, tags=[(fsblock, flags, logblock)],
    revokes=[...], committed)."""
    sb = img.sb
    jino = img.inode(sb.s_journal_inum)
    logical = {}
    for l, p, n, _u in img.block_map(jino)[0]:
        for k in range(n):
            logical[l + k] = p + k

    def jblk(n):
        if n not in logical:
            raise JournalError("journal block %d not mapped" % n)
        return img.blk(logical[n])
    raw = jblk(0)
    magic, btype = struct.unpack_from(">II", raw, 0)
    if magic != MAGIC or btype not in (BT_SB1, BT_SB2):
        raise JournalError("no journal superblock")
    bs, maxlen, first, seq, start = struct.unpack_from(">IIIII", raw, 0x0C)
    compat, incompat, rocompat = struct.unpack_from(">III", raw, 0x24)
    uuid = raw[0x30:0x40]
    problems, stats = [], {"descriptor_blocks": 0, "tags": 0, "escaped_tags": 0, "commit_blocks": 0,
                           "revoke_blocks": 0, "revoke_records": 0, "csum": "none", "transactions": 0}
    v3 = bool(incompat & INCOMPAT_V3)
    v2 = bool(incompat & INCOMPAT_V2)
    is64 = bool(incompat & INCOMPAT_64BIT)
    seed = _c(0xFFFFFFFF, uuid)
    if v2 or v3:
        stats["csum"] = "v3" if v3 else "v2"
        stored = struct.unpack_from(">I", raw, 0xFC)[0]
        calc = _c(0xFFFFFFFF, raw[:0xFC] + b"\0\0\0\0" + raw[0x100:1024])
        if stored != calc:
            problems.append("journal superblock checksum %08x, format defines %08x" % (stored, calc))
    elif compat & COMPAT_CHECKSUM:
        stats["csum"] = "v1"
    if v3:
        tagsz = 16
    else:
        tagsz = 12 + (2 if v2 else 0) - (0 if is64 else 4)      # journal_tag_bytes()
    txns = []
    if start == 0:
        return problems, stats, txns
    pos = start

    def nxt(p):
        p += 1
        return first + (p - maxlen) if p >= maxlen else p
    tid = seq
    while len(txns) < max_txn:
        t = {"tid": tid, "tags": [], "revokes": [], "committed": False}
        ended = False
        v1sum = 0xFFFFFFFF
        while True:
            b = jblk(pos)
            m, bt, s = struct.unpack_from(">III", b, 0)
            if m != MAGIC or s != tid:
                ended = True
                break
            if bt == BT_DESC:
                stats["descriptor_blocks"] += 1
                if v2 or v3:
                    stored = struct.unpack_from(">I", b, bs - 4)[0]
                    calc = _c(seed, b[:bs - 4] + b"\0\0\0\0")
                    if stored != calc:
                        problems.append("descriptor block (log block %d, tid %d) tail checksum %08x, format "
                                        "defines %08x" % (pos, tid, stored, calc))
                v1sum = crc.crc32_be(v1sum, b)
                off = 12
                limit = bs - (4 if (v2 or v3) else 0)
                dpos = pos
                while off + tagsz <= limit:
                    if v3:
                        lo, flags, hi, tcs = struct.unpack_from(">IIII", b, off)
                    else:
                        lo, tcs, flags = struct.unpack_from(">IHH", b, off)
                        hi = struct.unpack_from(">I", b, off + 8)[0] if is64 else 0
                    off += tagsz
                    if not flags & F_SAME_UUID:
                        off += 16
                    dpos = nxt(dpos)
                    data = jblk(dpos)
                    v1sum = crc.crc32_be(v1sum, data)
                    fsblk = lo | (hi << 32 if is64 else 0)
                    t["tags"].append((fsblk, flags, dpos))
                    stats["tags"] += 1
                    if flags & F_ESCAPE:
                        stats["escaped_tags"] += 1
                        if data[:4] != b"\0\0\0\0":
                            problems.append("tag for fs block %d (tid %d) is flagged ESCAPE but the block in the "
                                            "log does not start with zeros" % (fsblk, tid))
                    elif struct.unpack_from(">I", data, 0)[0] == MAGIC:
                        problems.append("log data block %d (fs block %d, tid %d) starts with the jbd2 magic but "
                                        "its tag is not flagged ESCAPE" % (dpos, fsblk, tid))
                    if v2 or v3:
                        c = _c(_c(seed, struct.pack(">I", tid)), data)
                        want = c if v3 else (c & 0xFFFF)
                        if tcs != want:
                            problems.append("tag checksum of fs block %d (tid %d, log block %d%s) is %x, the "
                                            "format defines %x (crc32c over sequence + the block as stored in "
                                            "the log)" % (fsblk, tid, dpos, ", escaped" if flags & F_ESCAPE else "",
                                                          tcs, want))
                    if flags & F_LAST:
                        break
                pos = nxt(dpos)
            elif bt == BT_REVOKE:
                stats["revoke_blocks"] += 1
                cnt = struct.unpack_from(">I", b, 12)[0]
                if v2 or v3:
                    stored = struct.unpack_from(">I", b, bs - 4)[0]
                    calc = _c(seed, b[:bs - 4] + b"\0\0\0\0")
                    if stored != calc:
                        problems.append("revoke block (log block %d, tid %d) tail checksum %08x, format defines "
                                        "%08x" % (pos, tid, stored, calc))
                rsz = 8 if is64 else 4
                o = 16
                while o + rsz <= min(cnt, bs):
                    t["revokes"].append(struct.unpack_from(">Q" if is64 else ">I", b, o)[0])
                    stats["revoke_records"] += 1
                    o += rsz
                pos = nxt(pos)
            elif bt == BT_COMMIT:
                stats["commit_blocks"] += 1
                if v2 or v3:
                    stored = struct.unpack_from(">I", b, 16)[0]
                    calc = _c(seed, b[:16] + b"\0\0\0\0" + b[20:bs])
                    if stored != calc:
                        problems.append("commit block (log block %d, tid %d) checksum %08x, format defines %08x"
                                        % (pos, tid, stored, calc))
                elif compat & COMPAT_CHECKSUM:
                    # v1: crc32 (big-endian) over the descriptor and data blocks of the transaction,
                    # in log order; revoke blocks are not part of it
                    ctype, csize = b[12], b[13]
                    stored = struct.unpack_from(">I", b, 16)[0]
                    if ctype == 1 and csize == 4 and stored != v1sum:
                        problems.append("commit block (log block %d, tid %d) v1 checksum %08x, format defines "
                                        "%08x (crc32_be over descriptor + data blocks)" % (pos, tid, stored, v1sum))
                t["committed"] = True
                pos = nxt(pos)
                break
            else:
                ended = True
                break
        if t["tags"] or t["revokes"] or t["committed"]:
            txns.append(t)
            stats["transactions"] += 1
        if ended or not t["committed"]:
            break
        tid = (tid + 1) & 0xFFFFFFFF
    return problems, stats, txns
