"""JBD2 journal writer and recovery reference model, written from the on-disk format.

JournalSpec describes transactions abstractly; build() lays them out into log blocks
(big-endian structures, tag formats 32/64-bit, checksum v1/v2/v3, escapes, revokes,
wrapping); predict() says which filesystem blocks a correct recovery writes.
"""
import struct

from . import crc

MAGIC = 0xC03B3998
BT_DESC, BT_COMMIT, BT_SBV1, BT_SBV2, BT_REVOKE = 1, 2, 3, 4, 5
F_ESCAPE, F_SAME_UUID, F_DELETED, F_LAST_TAG = 1, 2, 4, 8
COMPAT_CHECKSUM = 1
INCOMPAT_REVOKE, INCOMPAT_64BIT, INCOMPAT_ASYNC, INCOMPAT_CSUM_V2, INCOMPAT_CSUM_V3 = 1, 2, 4, 8, 16


class JSB:
    """journal superblock view"""

    def __init__(self, raw):
        self.raw = bytearray(raw)
        (self.magic, self.blocktype, self.hseq, self.blocksize, self.maxlen, self.first,
         self.sequence, self.start, self.errno, self.compat, self.incompat, self.ro) = \
            struct.unpack_from(">12I", self.raw, 0)
        self.uuid = bytes(self.raw[0x30:0x40])
        self.nr_users = struct.unpack_from(">I", self.raw, 0x40)[0]
        self.checksum_type = self.raw[0x50]
        self.checksum = struct.unpack_from(">I", self.raw, 0xFC)[0]

    def pack(self, csum_v23):
        r = self.raw
        struct.pack_into(">12I", r, 0, MAGIC, self.blocktype, self.hseq, self.blocksize, self.maxlen,
                         self.first, self.sequence, self.start, self.errno, self.compat,
                         self.incompat, self.ro)
        r[0x50] = self.checksum_type
        struct.pack_into(">I", r, 0xFC, 0)
        if csum_v23:
            c = crc.crc32c(0xFFFFFFFF, bytes(r[:1024]))
            struct.pack_into(">I", r, 0xFC, c)
        return bytes(r)

    def csum_ok(self):
        r = bytearray(self.raw[:1024])
        struct.pack_into(">I", r, 0xFC, 0)
        return crc.crc32c(0xFFFFFFFF, bytes(r)) == self.checksum


class Txn:
    def __init__(self, blocks=None, revokes=None, committed=True, commit_time=None):
        self.blocks = blocks or []        # list of (fs_blocknr, data bytes)
        self.revokes = revokes or []      # list of fs block numbers
        self.revoke_first = False         # revoke blocks before the descriptor blocks
        self.committed = committed
        self.commit_time = commit_time
        self.tags_per_desc = None         # force small descriptor blocks (several per txn)


class Layout:
    """Result of build(): log-block contents keyed by journal logical block number, the
    new journal superblock, and bookkeeping for damage operators."""

    def __init__(self):
        self.blocks = {}       # journal logical block -> bytes
        self.kinds = {}        # journal logical block -> (kind, txn_index, extra)
        self.order = []        # journal logical blocks in log order
        self.jsb = None
        self.wrapped = False
        self.escapes = 0
        self.tag_bytes = 0


def tag_bytes(incompat):
    if incompat & INCOMPAT_CSUM_V3:
        return 16
    sz = 12
    if incompat & INCOMPAT_CSUM_V2:
        sz += 2
    if not (incompat & INCOMPAT_64BIT):
        sz -= 4
    return sz


def build(jsb, txns, start_block, first_tid, compat=0, incompat=INCOMPAT_REVOKE, same_uuid="mixed",
          base_time=1500000000):
    """Lay out the transactions.  jsb: JSB parsed from the existing journal superblock
    (blocksize, maxlen, first, uuid are taken from it).  Returns Layout."""
    bs = jsb.blocksize
    lay = Layout()
    v23 = bool(incompat & (INCOMPAT_CSUM_V2 | INCOMPAT_CSUM_V3))
    v3 = bool(incompat & INCOMPAT_CSUM_V3)
    is64 = bool(incompat & INCOMPAT_64BIT)
    tb = tag_bytes(incompat)
    lay.tag_bytes = tb
    tail = 4 if v23 else 0
    seed = crc.crc32c(0xFFFFFFFF, jsb.uuid)
    pos = [start_block]

    def put(kind, ti, data, extra=None):
        b = pos[0]
        lay.blocks[b] = bytes(data)
        lay.kinds[b] = (kind, ti, extra)
        lay.order.append(b)
        pos[0] += 1
        if pos[0] >= jsb.maxlen:
            pos[0] = jsb.first
            lay.wrapped = True
        return b

    def hdr(bt, tid):
        return struct.pack(">III", MAGIC, bt, tid)

    def with_tail(buf):
        buf = bytearray(buf)
        struct.pack_into(">I", buf, bs - 4, 0)
        c = crc.crc32c(seed, bytes(buf))
        struct.pack_into(">I", buf, bs - 4, c)
        return buf

    def revoke_blocks(ti, tid, revs):
        rl = 8 if is64 else 4
        per = (bs - 16 - tail) // rl
        for i in range(0, len(revs), per):
            chunk = revs[i:i + per]
            buf = bytearray(bs)
            buf[0:12] = hdr(BT_REVOKE, tid)
            struct.pack_into(">I", buf, 12, 16 + rl * len(chunk))
            for k, b in enumerate(chunk):
                struct.pack_into(">Q" if is64 else ">I", buf, 16 + rl * k, b)
            if v23:
                buf = with_tail(buf)
            put("revoke", ti, buf, list(chunk))

    for ti, t in enumerate(txns):
        tid = (first_tid + ti) & 0xFFFFFFFF
        v1sum = 0xFFFFFFFF
        if t.revokes and t.revoke_first:
            revoke_blocks(ti, tid, t.revokes)
        # descriptor blocks
        blocks = list(t.blocks)
        i = 0
        while i < len(blocks):
            buf = bytearray(bs)
            buf[0:12] = hdr(BT_DESC, tid)
            off = 12
            ntags = 0
            datas = []
            first = True
            limit = t.tags_per_desc or 10 ** 9
            while i < len(blocks) and ntags < limit:
                su = (same_uuid == "all") or (same_uuid == "mixed" and not first)
                need = tb + (0 if su else 16)
                if off + need > bs - tail:
                    break
                blk, data = blocks[i]
                data = bytes(data)
                flags = F_SAME_UUID if su else 0
                stored = data
                if struct.unpack_from(">I", data, 0)[0] == MAGIC:
                    flags |= F_ESCAPE
                    stored = b"\0\0\0\0" + data[4:]
                    lay.escapes += 1
                csum32 = 0
                if v23:
                    csum32 = crc.crc32c(seed, struct.pack(">I", tid))
                    csum32 = crc.crc32c(csum32, stored)
                datas.append((blk, stored, off, flags, csum32))
                off += need
                ntags += 1
                i += 1
                first = False
            # set LAST_TAG on the final tag of this descriptor block and write the tags
            for k, (blk, stored, toff, flags, csum32) in enumerate(datas):
                if k == len(datas) - 1:
                    flags |= F_LAST_TAG
                if v3:
                    struct.pack_into(">IIII", buf, toff, blk & 0xFFFFFFFF, flags, blk >> 32, csum32)
                else:
                    struct.pack_into(">IHH", buf, toff, blk & 0xFFFFFFFF, csum32 & 0xFFFF if v23 else 0, flags)
                    if is64:
                        struct.pack_into(">I", buf, toff + 8, blk >> 32)
                if not (flags & F_SAME_UUID):
                    buf[toff + tb: toff + tb + 16] = jsb.uuid
            if v23:
                buf = with_tail(buf)
            put("desc", ti, buf, [d[0] for d in datas])
            v1sum = crc.crc32_be(v1sum, bytes(buf))
            for (blk, stored, toff, flags, csum32) in datas:
                put("data", ti, stored, blk)
                v1sum = crc.crc32_be(v1sum, stored)
        if t.revokes and not t.revoke_first:
            revoke_blocks(ti, tid, t.revokes)
        if t.committed:
            buf = bytearray(bs)
            buf[0:12] = hdr(BT_COMMIT, tid)
            ct = t.commit_time if t.commit_time is not None else base_time + ti
            if compat & COMPAT_CHECKSUM:
                buf[12] = 1      # JBD2_CRC32_CHKSUM
                buf[13] = 4
                struct.pack_into(">I", buf, 16, v1sum)
            struct.pack_into(">QI", buf, 48, ct, 0)
            if v23:
                buf[12] = 4      # crc32c (informational)
                buf[13] = 4
                struct.pack_into(">I", buf, 16, 0)
                c = crc.crc32c(seed, bytes(buf))
                struct.pack_into(">I", buf, 16, c)
            put("commit", ti, buf, None)
    lay.end = pos[0]
    j = JSB(jsb.raw)
    j.blocktype = BT_SBV2
    j.sequence = first_tid
    j.start = start_block
    j.compat = compat
    j.incompat = incompat
    j.errno = 0
    j.checksum_type = 4 if v23 else 0
    lay.jsb = j.pack(v23)
    return lay


def predict(txns, first_tid=0, applied_upto=None):
    """Reference recovery: returns {fs_block: data} of the blocks a correct replay writes,
    considering transactions [0, applied_upto) (default: the committed prefix)."""
    if applied_upto is None:
        applied_upto = 0
        for t in txns:
            if not t.committed:
                break
            applied_upto += 1
    maxrev = {}
    for ti in range(applied_upto):
        for b in txns[ti].revokes:
            maxrev[b] = max(maxrev.get(b, -1), ti)
    out = {}
    for ti in range(applied_upto):
        for b, data in txns[ti].blocks:
            if maxrev.get(b, -1) >= ti:
                continue
            out[b] = bytes(data)
    return out


def withheld(txns, applied):
    """blocks logged somewhere but not written by a correct replay"""
    allb = set()
    for t in txns:
        for b, _ in t.blocks:
            allb.add(b)
    return allb - set(applied)
