"""Independent reader of the ext2/3/4 on-disk format (written from the format
documentation; imports nothing from e2fsprogs and runs no e2fsprogs binary)."""
import mmap
import os
import struct

from . import crc

# feature bits
COMPAT = {"dir_prealloc": 0x1, "imagic_inodes": 0x2, "has_journal": 0x4, "ext_attr": 0x8,
          "resize_inode": 0x10, "dir_index": 0x20, "sparse_super2": 0x200, "fast_commit": 0x400,
          "stable_inodes": 0x800, "orphan_file": 0x1000}
INCOMPAT = {"compression": 0x1, "filetype": 0x2, "needs_recovery": 0x4, "journal_dev": 0x8,
            "meta_bg": 0x10, "extent": 0x40, "64bit": 0x80, "mmp": 0x100, "flex_bg": 0x200,
            "ea_inode": 0x400, "dirdata": 0x1000, "metadata_csum_seed": 0x2000, "large_dir": 0x4000,
            "inline_data": 0x8000, "encrypt": 0x10000, "casefold": 0x20000}
RO_COMPAT = {"sparse_super": 0x1, "large_file": 0x2, "btree_dir": 0x4, "huge_file": 0x8,
             "uninit_bg": 0x10, "dir_nlink": 0x20, "extra_isize": 0x40, "has_snapshot": 0x80,
             "quota": 0x100, "bigalloc": 0x200, "metadata_csum": 0x400, "replica": 0x800,
             "read_only": 0x1000, "project": 0x2000, "shared_blocks": 0x4000, "verity": 0x8000,
             "orphan_present": 0x10000}

BG_INODE_UNINIT, BG_BLOCK_UNINIT, BG_INODE_ZEROED = 1, 2, 4

S_IFMT = 0o170000
S_IFSOCK, S_IFLNK, S_IFREG, S_IFBLK, S_IFDIR, S_IFCHR, S_IFIFO = (
    0o140000, 0o120000, 0o100000, 0o060000, 0o040000, 0o020000, 0o010000)

FL_SECRM, FL_COMPR, FL_SYNC, FL_IMMUTABLE, FL_APPEND, FL_NODUMP, FL_NOATIME = 1, 4, 8, 0x10, 0x20, 0x40, 0x80
FL_INDEX = 0x1000
FL_HUGE_FILE = 0x40000
FL_EXTENTS = 0x80000
FL_VERITY = 0x100000
FL_EA_INODE = 0x200000
FL_INLINE_DATA = 0x10000000
FL_PROJINHERIT = 0x20000000
FL_CASEFOLD = 0x40000000
FL_ENCRYPT = 0x800

EXT_MAGIC = 0xF30A
XATTR_MAGIC = 0xEA020000

ROOT_INO = 2
JOURNAL_INO = 8
RESIZE_INO = 7
BAD_INO = 1


class FormatError(Exception):
    pass


SB_FIELDS = [
    # name, offset, fmt
    ("s_inodes_count", 0, "<I"), ("s_blocks_count_lo", 4, "<I"), ("s_r_blocks_count_lo", 8, "<I"),
    ("s_free_blocks_count_lo", 12, "<I"), ("s_free_inodes_count", 16, "<I"),
    ("s_first_data_block", 20, "<I"), ("s_log_block_size", 24, "<I"),
    ("s_log_cluster_size", 28, "<I"), ("s_blocks_per_group", 32, "<I"),
    ("s_clusters_per_group", 36, "<I"), ("s_inodes_per_group", 40, "<I"), ("s_mtime", 44, "<I"),
    ("s_wtime", 48, "<I"), ("s_mnt_count", 52, "<H"), ("s_max_mnt_count", 54, "<h"),
    ("s_magic", 56, "<H"), ("s_state", 58, "<H"), ("s_errors", 60, "<H"),
    ("s_minor_rev_level", 62, "<H"), ("s_lastcheck", 64, "<I"), ("s_checkinterval", 68, "<I"),
    ("s_creator_os", 72, "<I"), ("s_rev_level", 76, "<I"), ("s_def_resuid", 80, "<H"),
    ("s_def_resgid", 82, "<H"), ("s_first_ino", 84, "<I"), ("s_inode_size", 88, "<H"),
    ("s_block_group_nr", 90, "<H"), ("s_feature_compat", 92, "<I"),
    ("s_feature_incompat", 96, "<I"), ("s_feature_ro_compat", 100, "<I"),
    ("s_uuid", 104, "16s"), ("s_volume_name", 120, "16s"), ("s_last_mounted", 136, "64s"),
    ("s_algorithm_usage_bitmap", 200, "<I"), ("s_prealloc_blocks", 204, "B"),
    ("s_prealloc_dir_blocks", 205, "B"), ("s_reserved_gdt_blocks", 206, "<H"),
    ("s_journal_uuid", 208, "16s"), ("s_journal_inum", 224, "<I"), ("s_journal_dev", 228, "<I"),
    ("s_last_orphan", 232, "<I"), ("s_hash_seed", 236, "<4I"), ("s_def_hash_version", 252, "B"),
    ("s_jnl_backup_type", 253, "B"), ("s_desc_size", 254, "<H"),
    ("s_default_mount_opts", 256, "<I"), ("s_first_meta_bg", 260, "<I"),
    ("s_mkfs_time", 264, "<I"), ("s_jnl_blocks", 268, "<17I"), ("s_blocks_count_hi", 336, "<I"),
    ("s_r_blocks_count_hi", 340, "<I"), ("s_free_blocks_hi", 344, "<I"),
    ("s_min_extra_isize", 348, "<H"), ("s_want_extra_isize", 350, "<H"), ("s_flags", 352, "<I"),
    ("s_raid_stride", 356, "<H"), ("s_mmp_update_interval", 358, "<H"), ("s_mmp_block", 360, "<Q"),
    ("s_raid_stripe_width", 368, "<I"), ("s_log_groups_per_flex", 372, "B"),
    ("s_checksum_type", 373, "B"), ("s_kbytes_written", 376, "<Q"),
    ("s_snapshot_inum", 384, "<I"), ("s_error_count", 404, "<I"),
    ("s_mount_opts", 512, "64s"), ("s_usr_quota_inum", 576, "<I"), ("s_grp_quota_inum", 580, "<I"),
    ("s_overhead_clusters", 584, "<I"), ("s_backup_bgs", 588, "<2I"),
    ("s_lpf_ino", 616, "<I"), ("s_prj_quota_inum", 620, "<I"), ("s_checksum_seed", 624, "<I"),
    ("s_encoding", 636, "<H"), ("s_encoding_flags", 638, "<H"), ("s_orphan_file_inum", 640, "<I"),
    ("s_checksum", 1020, "<I"),
]
SB_OFF = {n: (o, f) for n, o, f in SB_FIELDS}


class Superblock:
    def __init__(self, raw):
        if len(raw) < 1024:
            raise FormatError("short superblock")
        self.raw = bytes(raw[:1024])
        for n, o, f in SB_FIELDS:
            v = struct.unpack_from(f, self.raw, o)
            setattr(self, n, v[0] if len(v) == 1 else v)
        if self.s_magic != 0xEF53:
            raise FormatError("bad superblock magic %#x" % self.s_magic)

    def has_compat(self, n):
        return bool(self.s_feature_compat & COMPAT[n])

    def has_incompat(self, n):
        return bool(self.s_feature_incompat & INCOMPAT[n])

    def has_ro(self, n):
        return bool(self.s_feature_ro_compat & RO_COMPAT[n])

    def has(self, n):
        if n in COMPAT:
            return self.has_compat(n)
        if n in INCOMPAT:
            return self.has_incompat(n)
        return self.has_ro(n)

    def features(self):
        out = []
        for tbl, v in ((COMPAT, self.s_feature_compat), (INCOMPAT, self.s_feature_incompat),
                       (RO_COMPAT, self.s_feature_ro_compat)):
            for n, b in tbl.items():
                if v & b:
                    out.append(n)
        return sorted(out)

    @property
    def block_size(self):
        return 1024 << self.s_log_block_size

    @property
    def cluster_ratio(self):
        if self.has_ro("bigalloc"):
            return 1 << (self.s_log_cluster_size - self.s_log_block_size)
        return 1

    @property
    def blocks_count(self):
        n = self.s_blocks_count_lo
        if self.has_incompat("64bit"):
            n |= self.s_blocks_count_hi << 32
        return n

    @property
    def free_blocks_count(self):
        n = self.s_free_blocks_count_lo
        if self.has_incompat("64bit"):
            n |= self.s_free_blocks_hi << 32
        return n

    @property
    def inode_size(self):
        return 128 if self.s_rev_level == 0 else self.s_inode_size

    @property
    def first_ino(self):
        return 11 if self.s_rev_level == 0 else self.s_first_ino

    @property
    def desc_size(self):
        if self.has_incompat("64bit"):
            return self.s_desc_size if self.s_desc_size else 32
        return 32

    @property
    def group_count(self):
        per = self.s_blocks_per_group
        return (self.blocks_count - self.s_first_data_block + per - 1) // per

    def csum_seed(self):
        if self.has_incompat("metadata_csum_seed"):
            return self.s_checksum_seed
        return crc.crc32c(0xFFFFFFFF, self.s_uuid)

    def checksum_ok(self):
        return crc.crc32c(0xFFFFFFFF, self.raw[:1020]) == self.s_checksum


class GroupDesc:
    __slots__ = ("raw", "block_bitmap", "inode_bitmap", "inode_table", "free_blocks",
                 "free_inodes", "used_dirs", "flags", "exclude_bitmap", "block_bitmap_csum",
                 "inode_bitmap_csum", "itable_unused", "checksum", "size")

    def __init__(self, raw, size, is64):
        self.raw = bytes(raw[:size])
        self.size = size
        (bb, ib, it, fb, fi, ud, fl, ex, bbc, ibc, iu, cs) = struct.unpack_from(
            "<IIIHHHHIHHHH", self.raw, 0)
        if is64 and size >= 64:
            (bbh, ibh, ith, fbh, fih, udh, iuh, exh, bbch, ibch) = struct.unpack_from(
                "<IIIHHHHIHH", self.raw, 32)
            bb |= bbh << 32
            ib |= ibh << 32
            it |= ith << 32
            fb |= fbh << 16
            fi |= fih << 16
            ud |= udh << 16
            iu |= iuh << 16
            bbc |= bbch << 16
            ibc |= ibch << 16
        self.block_bitmap, self.inode_bitmap, self.inode_table = bb, ib, it
        self.free_blocks, self.free_inodes, self.used_dirs = fb, fi, ud
        self.flags, self.exclude_bitmap = fl, ex
        self.block_bitmap_csum, self.inode_bitmap_csum = bbc, ibc
        self.itable_unused, self.checksum = iu, cs


class Extent:
    __slots__ = ("lblk", "len", "pblk", "uninit")

    def __init__(self, lblk, ln, pblk, uninit):
        self.lblk, self.len, self.pblk, self.uninit = lblk, ln, pblk, uninit

    def __repr__(self):
        return "Ext(%d+%d->%d%s)" % (self.lblk, self.len, self.pblk, "u" if self.uninit else "")


class Inode:
    def __init__(self, img, ino, raw):
        self.img, self.ino, self.raw = img, ino, bytes(raw)
        r = self.raw
        (self.mode, uid, size_lo, self.atime, self.ctime, self.mtime, self.dtime, gid,
         self.links, blocks_lo, self.flags, self.osd1) = struct.unpack_from("<HHIIIIIHHIII", r, 0)
        self.i_block = r[40:100]
        (self.generation, acl_lo, size_hi, _faddr) = struct.unpack_from("<IIII", r, 100)
        (blocks_hi, acl_hi, uid_hi, gid_hi, self.csum_lo, _res) = struct.unpack_from("<HHHHHH", r, 116)
        self.uid = uid | (uid_hi << 16)
        self.gid = gid | (gid_hi << 16)
        self.size = size_lo | (size_hi << 32)
        self.size_lo, self.size_hi = size_lo, size_hi
        self.i_blocks = blocks_lo | (blocks_hi << 32)
        # (the high 16 bits exist only with the 64bit feature; without it kernel and libext2fs ignore them)
        self.file_acl = acl_lo | ((acl_hi << 32) if img.is64 else 0)
        self.extra_isize = 0
        self.csum_hi = None
        self.projid = 0
        self.mtime_extra = 0
        if len(r) > 128:
            self.extra_isize = struct.unpack_from("<H", r, 128)[0]
            if self.extra_isize >= 4:
                self.csum_hi = struct.unpack_from("<H", r, 130)[0]
            if self.extra_isize >= 12:
                self.mtime_extra = struct.unpack_from("<I", r, 136)[0]
            if self.extra_isize >= 32:
                self.projid = struct.unpack_from("<I", r, 156)[0]

    @property
    def fmt(self):
        return self.mode & S_IFMT

    def is_dir(self):
        return self.fmt == S_IFDIR

    def is_reg(self):
        return self.fmt == S_IFREG

    def is_lnk(self):
        return self.fmt == S_IFLNK

    def in_use(self):
        return self.links > 0 or self.mode != 0

    def stored_csum(self):
        c = self.csum_lo
        if self.csum_hi is not None:
            c |= self.csum_hi << 16
        return c

    def compute_csum(self):
        sb = self.img.sb
        seed = crc.crc32c(sb.csum_seed(), struct.pack("<I", self.ino))
        seed = crc.crc32c(seed, struct.pack("<I", self.generation))
        b = bytearray(self.raw)
        b[124:126] = b"\0\0"
        has_hi = len(b) > 128 and self.extra_isize >= 4
        if has_hi:
            b[130:132] = b"\0\0"
        c = crc.crc32c(seed, bytes(b))
        if not has_hi:
            c &= 0xFFFF
        return c

    def csum_seed(self):
        sb = self.img.sb
        seed = crc.crc32c(sb.csum_seed(), struct.pack("<I", self.ino))
        return crc.crc32c(seed, struct.pack("<I", self.generation))


class Image:
    def __init__(self, path=None, data=None, offset=0):
        self.path = path
        self._f = None
        if data is not None:
            self.data = data
        else:
            self._f = open(path, "rb")
            sz = os.fstat(self._f.fileno()).st_size
            if sz == 0:
                raise FormatError("empty image")
            self.data = mmap.mmap(self._f.fileno(), 0, access=mmap.ACCESS_READ)
        self.offset = offset
        self.size = len(self.data) - offset
        self.sb = Superblock(self.data[offset + 1024: offset + 2048])
        self._init_geometry()

    def close(self):
        try:
            if isinstance(self.data, mmap.mmap):
                self.data.close()
        finally:
            if self._f:
                self._f.close()

    def __enter__(self):
        return self

    def __exit__(self, *a):
        self.close()

    # ---- geometry ---------------------------------------------------------------
    def _init_geometry(self):
        sb = self.sb
        self.bs = sb.block_size
        if sb.s_log_block_size > 6:
            raise FormatError("absurd block size")
        if sb.s_blocks_per_group == 0 or sb.s_inodes_per_group == 0:
            raise FormatError("zero per-group counts")
        self.ratio = sb.cluster_ratio
        self.blocks_count = sb.blocks_count
        self.groups = sb.group_count
        if self.groups <= 0 or self.groups > (1 << 22):
            raise FormatError("absurd group count")
        self.inode_size = sb.inode_size
        self.desc_size = sb.desc_size
        isz = self.inode_size
        if isz < 128 or isz > self.bs or (isz & (isz - 1)):
            raise FormatError("bad inode size %d" % isz)
        if self.desc_size < 32 or self.desc_size > 1024 or (self.desc_size & (self.desc_size - 1)):
            raise FormatError("bad descriptor size %d" % self.desc_size)
        if sb.s_blocks_per_group > 8 * self.bs * max(1, sb.cluster_ratio) or \
                sb.s_inodes_per_group > 8 * self.bs or sb.s_clusters_per_group > 8 * self.bs or \
                sb.s_clusters_per_group == 0:
            raise FormatError("per-group counts exceed bitmap capacity")
        if sb.s_first_data_block >= sb.blocks_count:
            raise FormatError("first data block beyond end")
        if sb.s_inodes_count != sb.s_inodes_per_group * self.groups:
            raise FormatError("inode count does not match groups")
        self.is64 = sb.has_incompat("64bit")
        self.descs_per_block = self.bs // self.desc_size
        self.gdt_blocks = (self.groups + self.descs_per_block - 1) // self.descs_per_block
        self.has_csum = sb.has_ro("metadata_csum")
        self.has_gdt_csum = self.has_csum or sb.has_ro("uninit_bg")
        self._gd = None
        if sb.has_incompat("meta_bg") and sb.s_first_meta_bg > self.gdt_blocks:
            raise FormatError("s_first_meta_bg too large")

    def blk(self, n, count=1):
        if n < 0 or n + count > self.blocks_count:
            raise FormatError("block %d out of range" % n)
        o = self.offset + n * self.bs
        b = self.data[o:o + count * self.bs]
        if len(b) < count * self.bs:
            b = bytes(b) + b"\0" * (count * self.bs - len(b))   # sparse tail of a short file
        return b

    def group_first_block(self, g):
        return self.sb.s_first_data_block + g * self.sb.s_blocks_per_group

    def group_blocks(self, g):
        """number of blocks in group g"""
        if g == self.groups - 1:
            return self.blocks_count - self.group_first_block(g)
        return self.sb.s_blocks_per_group

    def group_of_block(self, b):
        return (b - self.sb.s_first_data_block) // self.sb.s_blocks_per_group

    @staticmethod
    def _is_power(n, base):
        while n > 1:
            if n % base:
                return False
            n //= base
        return n == 1

    def bg_has_super(self, g):
        sb = self.sb
        if g == 0:
            return True
        if sb.has_compat("sparse_super2"):
            return g in (sb.s_backup_bgs[0], sb.s_backup_bgs[1]) and g != 0
        if not sb.has_ro("sparse_super"):
            return True
        if g == 1:
            return True
        if g % 2 == 0:
            return False
        return self._is_power(g, 3) or self._is_power(g, 5) or self._is_power(g, 7)

    def gdt_location(self, i, group=0):
        """Block number holding descriptor block i as seen from the superblock copy in
        `group` (0 = primary)."""
        sb = self.sb
        if not sb.has_incompat("meta_bg") or i < sb.s_first_meta_bg:
            return self.sb_block(group) + 1 + i
        mg_first = i * self.descs_per_block
        # primary copy lives in the first group of the meta group
        g = mg_first
        if group:
            # backups in the second and last group of the meta group
            g = mg_first + (1 if group == 1 else self.descs_per_block - 1)
        if self.bg_has_super(g):
            return self.sb_block(g) + 1
        return self.group_first_block(g)

    def sb_block(self, g):
        """block that holds the superblock (copy) of group g"""
        b = self.group_first_block(g)
        if g == 0 and self.bs == 1024 and self.sb.s_first_data_block == 0:
            b = 1       # 1k blocks with first_data_block 0 (bigalloc): sb is still at byte 1024
        return b

    def group_descs(self):
        if self._gd is None:
            out = []
            for i in range(self.gdt_blocks):
                b = self.blk(self.gdt_location(i))
                for j in range(self.descs_per_block):
                    g = i * self.descs_per_block + j
                    if g >= self.groups:
                        break
                    out.append(GroupDesc(b[j * self.desc_size:(j + 1) * self.desc_size],
                                         self.desc_size, self.is64))
            self._gd = out
        return self._gd

    def gd_csum(self, g, raw=None):
        """Expected bg_checksum of group g (or None when descriptors carry none)."""
        sb = self.sb
        gd = self.group_descs()[g]
        raw = gd.raw if raw is None else raw
        size = self.desc_size
        if self.has_csum:
            c = crc.crc32c(sb.csum_seed(), struct.pack("<I", g))
            c = crc.crc32c(c, raw[:30])
            c = crc.crc32c(c, b"\0\0")
            if size > 32:
                c = crc.crc32c(c, raw[32:size])
            return c & 0xFFFF
        if sb.has_ro("uninit_bg"):
            c = crc.crc16(0xFFFF, sb.s_uuid)
            c = crc.crc16(c, struct.pack("<I", g))
            c = crc.crc16(c, raw[:30])
            if self.is64 and size > 32:
                c = crc.crc16(c, raw[32:size])
            return c
        return None

    # ---- inodes -----------------------------------------------------------------
    def inode_loc(self, ino):
        sb = self.sb
        if ino < 1 or ino > sb.s_inodes_count:
            raise FormatError("inode %d out of range" % ino)
        g = (ino - 1) // sb.s_inodes_per_group
        idx = (ino - 1) % sb.s_inodes_per_group
        gd = self.group_descs()[g]
        off = gd.inode_table * self.bs + idx * self.inode_size
        if gd.inode_table <= 0 or off + self.inode_size > self.blocks_count * self.bs:
            raise FormatError("inode table of group %d out of range" % g)
        return off

    def inode_raw(self, ino):
        off = self.offset + self.inode_loc(ino)
        b = self.data[off:off + self.inode_size]
        if len(b) < self.inode_size:
            b = bytes(b) + b"\0" * (self.inode_size - len(b))
        return b

    def inode(self, ino):
        return Inode(self, ino, self.inode_raw(ino))

    def itable_blocks(self):
        return (self.sb.s_inodes_per_group * self.inode_size + self.bs - 1) // self.bs

    # ---- bitmaps ----------------------------------------------------------------
    def block_bitmap(self, g):
        """Effective block bitmap bytes of group g (clusters_per_group bits), honouring
        BLOCK_UNINIT (then None: the caller derives it from the metadata layout)."""
        gd = self.group_descs()[g]
        if self.has_gdt_csum and (gd.flags & BG_BLOCK_UNINIT):
            return None
        n = self.sb.s_clusters_per_group // 8
        return bytes(self.blk(gd.block_bitmap)[:n])

    def inode_bitmap(self, g):
        gd = self.group_descs()[g]
        n = self.sb.s_inodes_per_group // 8
        if self.has_gdt_csum and (gd.flags & BG_INODE_UNINIT):
            return bytes(n)
        return bytes(self.blk(gd.inode_bitmap)[:n])

    def inode_allocated(self, ino):
        g = (ino - 1) // self.sb.s_inodes_per_group
        idx = (ino - 1) % self.sb.s_inodes_per_group
        bm = self.inode_bitmap(g)
        return bool(bm[idx >> 3] >> (idx & 7) & 1)

    # ---- block mapping ----------------------------------------------------------
    def extent_tree(self, ino_obj, visit=None, max_nodes=100000, strict=True):
        """Walk the extent tree; returns (leaf_extents, node_blocks).  visit(node_block,
        depth, header, raw) is called for every non-root node.  Raises FormatError on a
        malformed tree (bad magic, depth mismatch, cycles)."""
        extents = []
        nodes = []
        seen = set()

        def walk(buf, depth_expected, blkno):
            magic, entries, mx, depth, gen = struct.unpack_from("<HHHHI", buf, 0)
            if magic != EXT_MAGIC:
                raise FormatError("extent magic bad in %s" % (blkno if blkno else "inode"))
            if depth_expected is not None and depth != depth_expected:
                if strict:
                    raise FormatError("extent depth mismatch")
                depth = depth_expected      # tolerant: interpret by position in the tree
            if depth > 10:
                raise FormatError("extent depth absurd")
            cap = (len(buf) - 12) // 12
            if mx > cap or entries > mx:
                raise FormatError("extent entries/max out of bounds")
            if depth == 0:
                for i in range(entries):
                    lb, ln, hi, lo = struct.unpack_from("<IHHI", buf, 12 + 12 * i)
                    un = ln > 32768
                    if un:
                        ln -= 32768
                    extents.append(Extent(lb, ln, lo | (hi << 32), un))
            else:
                for i in range(entries):
                    lb, lo, hi, _ = struct.unpack_from("<IIHH", buf, 12 + 12 * i)
                    child = lo | (hi << 32)
                    if child in seen:
                        raise FormatError("extent tree cycle")
                    seen.add(child)
                    if len(seen) > max_nodes:
                        raise FormatError("extent tree too large")
                    if child <= 0 or child >= self.blocks_count:
                        raise FormatError("extent index block out of range")
                    cb = self.blk(child)
                    nodes.append((child, depth - 1, lb))
                    if visit:
                        visit(child, depth - 1, cb)
                    walk(cb, depth - 1, child)

        walk(ino_obj.i_block, None, 0)
        return extents, nodes

    def block_map(self, ino_obj, max_blocks=1 << 22, strict=True):
        """Returns (mapping list of (lblk, pblk, count, uninit), metadata blocks list) for
        an inode, for extent- and indirect-mapped inodes."""
        if ino_obj.flags & FL_INLINE_DATA:
            return [], []
        if ino_obj.flags & FL_EXTENTS:
            ex, nodes = self.extent_tree(ino_obj, strict=strict)
            return [(e.lblk, e.pblk, e.len, e.uninit) for e in ex], [n[0] for n in nodes]
        # classic map
        per = self.bs // 4
        mapping = []
        meta = []
        ib = struct.unpack_from("<15I", ino_obj.i_block, 0)
        count = [0]

        def add(l, p):
            if p:
                if mapping and mapping[-1][0] + mapping[-1][2] == l and \
                        mapping[-1][1] + mapping[-1][2] == p:
                    mapping[-1][2] += 1
                else:
                    mapping.append([l, p, 1, False])
                count[0] += 1
                if count[0] > max_blocks:
                    raise FormatError("block map too large")

        for i in range(12):
            add(i, ib[i])

        def ind(blkno, level, lbase):
            if not blkno:
                return
            if blkno >= self.blocks_count:
                raise FormatError("indirect block out of range")
            meta.append(blkno)
            if len(meta) > 200000:
                raise FormatError("too many indirect blocks")
            ptrs = struct.unpack_from("<%dI" % per, self.blk(blkno), 0)
            span = per ** (level - 1)
            for i, p in enumerate(ptrs):
                if not p:
                    continue
                if level == 1:
                    add(lbase + i, p)
                else:
                    ind(p, level - 1, lbase + i * span)

        ind(ib[12], 1, 12)
        ind(ib[13], 2, 12 + per)
        ind(ib[14], 3, 12 + per + per * per)
        return [tuple(m) for m in mapping], meta

    # ---- file content -----------------------------------------------------------
    def inline_data(self, ino_obj):
        """bytes of an inline-data inode: i_block (60) + value of system.data"""
        xs = self.xattrs(ino_obj, raw_system_data=True)
        rest = xs.get(("system", b"data"), b"") if xs is not None else b""
        size = ino_obj.size
        d = bytes(ino_obj.i_block) + bytes(rest)
        return d[:size]

    def read_file(self, ino_obj, limit=64 << 20):
        """Return (data bytes, holes) where holes is a list of (offset, length) in bytes of
        unmapped or uninitialised ranges (which read as zeros)."""
        size = ino_obj.size
        if size > limit:
            raise FormatError("file too large for read_file (%d)" % size)
        if ino_obj.flags & FL_INLINE_DATA:
            return self.inline_data(ino_obj), []
        mapping, _ = self.block_map(ino_obj)
        out = bytearray(size)
        covered = []
        bs = self.bs
        for l, p, c, un in mapping:
            if un:
                continue
            start = l * bs
            if start >= size:
                continue
            n = min(c * bs, size - start)
            nb = (n + bs - 1) // bs
            if p + nb > self.blocks_count:
                raise FormatError("mapped block out of range")
            out[start:start + n] = self.blk(p, nb)[:n]
            covered.append((start, start + n))
        covered.sort()
        holes = []
        pos = 0
        for a, b in covered:
            if a > pos:
                holes.append((pos, a - pos))
            pos = max(pos, b)
        if pos < size:
            holes.append((pos, size - pos))
        return bytes(out), holes

    def file_digest(self, ino_obj, hasher):
        """Feed hasher with a canonical description of the file's bytes: for every maximal
        run of mapped, initialised blocks (clipped to i_size) ('D', start, length, bytes).
        Returns the list of holes (offset, length).  Works for huge sparse files."""
        size = ino_obj.size
        if ino_obj.flags & FL_INLINE_DATA:
            d = self.inline_data(ino_obj)
            hasher.update(b"D%d,%d:" % (0, len(d)))
            hasher.update(d)
            return []
        mapping, _ = self.block_map(ino_obj)
        bs = self.bs
        runs = []
        for l, p, c, un in sorted(mapping):
            if un:
                continue
            start = l * bs
            if start >= size:
                continue
            n = min(c * bs, size - start)
            if p + (n + bs - 1) // bs > self.blocks_count:
                raise FormatError("mapped block out of range")
            runs.append((start, n, p))
        holes = []
        pos = 0
        i = 0
        while i < len(runs):
            start, n, p = runs[i]
            if start > pos:
                holes.append((pos, start - pos))
            # merge logically adjacent runs into one canonical run
            j = i
            total = n
            while j + 1 < len(runs) and runs[j + 1][0] == runs[j][0] + runs[j][1]:
                j += 1
                total += runs[j][1]
            hasher.update(b"D%d,%d:" % (start, total))
            for k in range(i, j + 1):
                st, nn, pp = runs[k]
                off = 0
                while off < nn:
                    chunk = min(nn - off, 256 * bs)
                    nb = (chunk + bs - 1) // bs
                    hasher.update(self.blk(pp + off // bs, nb)[:chunk])
                    off += chunk
            pos = start + total
            i = j + 1
        if pos < size:
            holes.append((pos, size - pos))
        return holes

    def symlink_target(self, ino_obj):
        size = ino_obj.size
        if ino_obj.flags & FL_INLINE_DATA:
            return self.inline_data(ino_obj)
        ea_blocks = (self.bs // 512) * self.ratio if ino_obj.file_acl else 0
        fast = size < 60 and ino_obj.i_blocks - ea_blocks == 0
        if fast:
            return bytes(ino_obj.i_block[:size])
        d, _ = self.read_file(ino_obj, limit=1 << 20)
        return d

    # ---- directories ------------------------------------------------------------
    def rec_len(self, v):
        if self.bs >= 65536:
            if v == 65535 or v == 0:
                return 65536
            return (v & 0xFFFC) | ((v & 3) << 16)
        return v

    def parse_dirents(self, buf, strict=True, has_tail=None):
        """Yield (offset, inode, rec_len, name_len, file_type, name) for a directory leaf
        block (or inline chunk).  Raises FormatError on malformed chains when strict."""
        n = len(buf)
        off = 0
        out = []
        while off < n:
            if n - off < 8:
                if strict:
                    raise FormatError("dirent header overruns block")
                break
            ino, rl, nl, ft = struct.unpack_from("<IHBB", buf, off)
            rl = self.rec_len(rl) if n == self.bs else rl
            if rl < 8 or rl % 4 or off + rl > n or (nl + 8 > rl):
                if strict:
                    raise FormatError("bad dirent at %d (rec_len %d name_len %d)" % (off, rl, nl))
                break
            out.append((off, ino, rl, nl, ft, bytes(buf[off + 8: off + 8 + nl])))
            off += rl
        return out

    def dir_blocks(self, ino_obj):
        """list of (lblk, pblk) of a block-mapped directory, in logical order"""
        mapping, _ = self.block_map(ino_obj)
        out = []
        for l, p, c, un in mapping:
            for i in range(c):
                out.append((l + i, p + i))
        out.sort()
        return out

    def list_dir(self, ino_obj, strict=True):
        """Returns list of (name bytes, inode, file_type) incl. '.' and '..'."""
        ents = []
        if ino_obj.flags & FL_INLINE_DATA:
            d = self.inline_data(ino_obj)
            if len(d) < 4:
                raise FormatError("inline dir too short")
            parent = struct.unpack_from("<I", d, 0)[0]
            ents.append((b".", ino_obj.ino, 2))
            ents.append((b"..", parent, 2))
            # first chunk: i_block[4:60]; second: the system.data part
            first = d[4:60]
            second = d[60:]
            for chunk in (first, second):
                if not chunk:
                    continue
                for (_o, ino, _rl, _nl, ft, name) in self.parse_dirents(chunk, strict):
                    if ino:
                        ents.append((name, ino, ft))
            return ents
        nblocks = (ino_obj.size + self.bs - 1) // self.bs
        for l, p in self.dir_blocks(ino_obj):
            if l >= nblocks:
                continue
            buf = self.blk(p)
            for (_o, ino, rl, nl, ft, name) in self.parse_dirents(buf, strict):
                if ino == 0:
                    continue
                ents.append((name, ino, ft))
        return ents

    # ---- xattrs -----------------------------------------------------------------
    XPREFIX = {1: "user", 2: "system.posix_acl_access", 3: "system.posix_acl_default",
               4: "trusted", 6: "security", 7: "system", 8: "system.richacl"}

    def _xattr_entries(self, buf, first, value_base, end):
        """parse entries starting at `first` in buf; values at value_base + e_value_offs"""
        out = []
        off = first
        while True:
            if off + 4 > end:
                raise FormatError("xattr entry list overruns")
            if struct.unpack_from("<I", buf, off)[0] == 0:
                break
            if off + 16 > end:
                raise FormatError("xattr entry overruns")
            nl, idx, voff, vinum, vsize, h = struct.unpack_from("<BBHIII", buf, off)
            name = bytes(buf[off + 16: off + 16 + nl])
            if off + 16 + nl > end:
                raise FormatError("xattr name overruns")
            out.append(dict(off=off, name_len=nl, index=idx, value_offs=voff, value_inum=vinum,
                            value_size=vsize, hash=h, name=name))
            off += (16 + nl + 3) & ~3
        for e in out:
            if e["value_inum"]:
                e["value"] = None
            else:
                a = value_base + e["value_offs"]
                if e["value_size"] and (a < 0 or a + e["value_size"] > end):
                    raise FormatError("xattr value out of bounds")
                e["value"] = bytes(buf[a:a + e["value_size"]])
        return out

    def xattr_entries(self, ino_obj):
        """Returns (in_inode_entries, block_entries, block_header or None)."""
        ib = []
        r = ino_obj.raw
        if len(r) > 128 and ino_obj.extra_isize and 128 + ino_obj.extra_isize + 4 <= len(r):
            base = 128 + ino_obj.extra_isize
            if struct.unpack_from("<I", r, base)[0] == XATTR_MAGIC:
                ib = self._xattr_entries(r, base + 4, base + 4, len(r))
        bb = []
        hdr = None
        if ino_obj.file_acl:
            if ino_obj.file_acl >= self.blocks_count:
                raise FormatError("xattr block out of range")
            b = self.blk(ino_obj.file_acl)
            magic, refc, nblk, hh, cs = struct.unpack_from("<IIIII", b, 0)
            if magic != XATTR_MAGIC:
                raise FormatError("xattr block magic bad")
            hdr = dict(refcount=refc, blocks=nblk, hash=hh, checksum=cs)
            bb = self._xattr_entries(b, 32, 0, self.bs)
        return ib, bb, hdr

    def ea_inode_value(self, inum, size):
        vi = self.inode(inum)
        d, _ = self.read_file(vi)
        return d[:size]

    def xattrs(self, ino_obj, raw_system_data=False):
        """dict {(prefix, name): value}.  system.data is skipped unless requested."""
        ib, bb, _ = self.xattr_entries(ino_obj)
        out = {}
        for e in ib + bb:
            pre = self.XPREFIX.get(e["index"], "idx%d" % e["index"])
            v = e["value"]
            if v is None:
                v = self.ea_inode_value(e["value_inum"], e["value_size"])
            if pre == "system" and e["name"] == b"data" and not raw_system_data:
                continue
            out[(pre, e["name"])] = v
        return out
