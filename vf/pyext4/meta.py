"""metadata_map(img): every metadata object of a (consistent) image with its location,
owner and type.  Drives structured corruption (C01/C02/C05/C06), the checksum sweep (C14)
and the e2image comparison (C19)."""
import struct

from . import image as I


class Obj:
    __slots__ = ("kind", "off", "length", "ino", "lblk", "group", "extra")

    def __init__(self, kind, off, length, ino=0, lblk=None, group=None, extra=None):
        self.kind, self.off, self.length = kind, off, length
        self.ino, self.lblk, self.group, self.extra = ino, lblk, group, extra

    @property
    def block(self):
        return None

    def __repr__(self):
        return "Obj(%s off=%d len=%d ino=%s lblk=%s grp=%s)" % (
            self.kind, self.off, self.length, self.ino, self.lblk, self.group)


def in_use_inodes(img):
    sb = img.sb
    out = []
    first = sb.first_ino
    ipg = sb.s_inodes_per_group
    special = {1, 2, 7, 8, sb.s_usr_quota_inum, sb.s_grp_quota_inum, sb.s_prj_quota_inum}
    if sb.has_compat("orphan_file"):
        special.add(sb.s_orphan_file_inum)
    special.discard(0)
    for g, gd in enumerate(img.group_descs()):
        if img.has_gdt_csum and (gd.flags & I.BG_INODE_UNINIT):
            continue
        try:
            bm = img.inode_bitmap(g)
        except I.FormatError:
            continue
        for k in range(ipg):
            if not (bm[k >> 3] >> (k & 7) & 1):
                continue
            ino = g * ipg + k + 1
            if ino < first and ino not in special:
                continue
            try:
                i = img.inode(ino)
            except I.FormatError:
                continue
            if i.links == 0 and i.mode == 0:
                continue
            out.append(i)
    return out


def metadata_map(img, with_inodes=True):
    """Returns list of Obj.  off/length are byte positions relative to the filesystem
    start.  kinds: sb, sb_backup, gdt, gdt_backup, rgdt, bbitmap, ibitmap, itable, inode,
    ext_node, ind_block, dir_leaf, dx_root, dx_node, xattr_block, journal, mmp, symlink,
    special_data (quota / orphan file / resize dind)."""
    sb = img.sb
    bs = img.bs
    out = []
    out.append(Obj("sb", 1024, 1024, group=0))
    meta_bg = sb.has_incompat("meta_bg")
    old_desc = img.gdt_blocks if not meta_bg else min(sb.s_first_meta_bg, img.gdt_blocks)
    gds = img.group_descs()
    for g in range(img.groups):
        if img.bg_has_super(g):
            sbb = img.sb_block(g)
            if g:
                out.append(Obj("sb_backup", sbb * bs, 1024, group=g))
            for i in range(old_desc):
                out.append(Obj("gdt" if g == 0 else "gdt_backup", (sbb + 1 + i) * bs, bs,
                               group=g, lblk=i))
            if not meta_bg or sb.s_first_meta_bg > 0:
                for i in range(sb.s_reserved_gdt_blocks):
                    b = sbb + 1 + old_desc + i
                    if b < img.group_first_block(g) + img.group_blocks(g):
                        out.append(Obj("rgdt", b * bs, bs, group=g))
    if meta_bg:
        for i in range(sb.s_first_meta_bg, img.gdt_blocks):
            out.append(Obj("gdt", img.gdt_location(i, 0) * bs, bs, group=i * img.descs_per_block,
                           lblk=i))
            for which in (1, 2):
                g = i * img.descs_per_block + (1 if which == 1 else img.descs_per_block - 1)
                if g < img.groups:
                    out.append(Obj("gdt_backup", img.gdt_location(i, which) * bs, bs, group=g,
                                   lblk=i))
    nit = img.itable_blocks()
    for g, gd in enumerate(gds):
        out.append(Obj("bbitmap", gd.block_bitmap * bs, bs, group=g))
        out.append(Obj("ibitmap", gd.inode_bitmap * bs, bs, group=g))
        out.append(Obj("itable", gd.inode_table * bs, nit * bs, group=g))
    if sb.has_incompat("mmp") and sb.s_mmp_block:
        out.append(Obj("mmp", sb.s_mmp_block * bs, bs))
    if not with_inodes:
        return out
    special_data = {sb.s_usr_quota_inum, sb.s_grp_quota_inum, sb.s_prj_quota_inum}
    if sb.has_compat("orphan_file"):
        special_data.add(sb.s_orphan_file_inum)
    special_data.discard(0)
    xseen = set()
    for i in in_use_inodes(img):
        ino = i.ino
        out.append(Obj("inode", img.inode_loc(ino), img.inode_size, ino=ino))
        if ino == I.BAD_INO:
            continue
        if ino == I.RESIZE_INO:
            dind = struct.unpack_from("<I", i.i_block, 52)[0]
            if dind and dind < img.blocks_count:
                out.append(Obj("special_data", dind * bs, bs, ino=ino, extra="resize-dind"))
            continue
        if i.file_acl and i.file_acl < img.blocks_count and i.file_acl not in xseen:
            xseen.add(i.file_acl)
            out.append(Obj("xattr_block", i.file_acl * bs, bs, ino=ino))
        if i.flags & I.FL_INLINE_DATA:
            continue
        fmt = i.fmt
        if fmt not in (I.S_IFREG, I.S_IFDIR, I.S_IFLNK):
            continue
        if fmt == I.S_IFLNK:
            ea_blocks = (bs // 512) * img.ratio if i.file_acl else 0
            if i.size < 60 and i.i_blocks - ea_blocks == 0:
                continue
        try:
            mapping, metab = img.block_map(i)
        except I.FormatError:
            continue
        kind = "ext_node" if i.flags & I.FL_EXTENTS else "ind_block"
        for b in metab:
            out.append(Obj(kind, b * bs, bs, ino=ino))
        datakind = None
        if fmt == I.S_IFDIR:
            datakind = "dir"
        elif fmt == I.S_IFLNK:
            datakind = "symlink"
        elif ino == I.JOURNAL_INO:
            datakind = "journal"
        elif ino in special_data:
            datakind = "special_data"
        if datakind is None:
            continue
        nblocks = (i.size + bs - 1) // bs
        is_dx = fmt == I.S_IFDIR and (i.flags & I.FL_INDEX) and sb.has_compat("dir_index")
        interior = set()
        if is_dx:
            interior = dx_interior_blocks(img, i, mapping)
        for l, pb, c, un in mapping:
            for k in range(c):
                if pb + k >= img.blocks_count:
                    break
                lb = l + k
                if datakind == "dir":
                    if lb >= nblocks:
                        continue
                    if lb in interior:
                        kd = "dx_root" if lb == 0 else "dx_node"
                    else:
                        kd = "dir_leaf"
                    out.append(Obj(kd, (pb + k) * bs, bs, ino=ino, lblk=lb))
                elif datakind == "journal":
                    out.append(Obj("journal", (pb + k) * bs, bs, ino=ino, lblk=lb))
                else:
                    out.append(Obj(datakind, (pb + k) * bs, bs, ino=ino, lblk=lb))
    return out


def dx_interior_blocks(img, i, mapping):
    """logical block numbers of htree interior nodes (incl. root) of a dx directory"""
    bs = img.bs
    blocks = {}
    for l, pb, c, un in mapping:
        for k in range(c):
            blocks[l + k] = pb + k
    interior = set()
    if 0 not in blocks:
        return interior
    try:
        root = img.blk(blocks[0])
        levels = root[30]
        if root[29] != 8 or levels > 3:
            return interior
        interior.add(0)

        def node(buf, off, level, depth=0):
            limit, count = struct.unpack_from("<HH", buf, off)
            if count > limit or count > (bs - off) // 8:
                return
            for k in range(count):
                b = struct.unpack_from("<I", buf, off + 8 * k + 4)[0] & 0x0FFFFFFF
                if level > 0 and b in blocks and b not in interior and depth < 4:
                    interior.add(b)
                    node(img.blk(blocks[b]), 8, level - 1, depth + 1)

        node(root, 32, levels)
    except (I.FormatError, struct.error, IndexError):
        pass
    return interior


def metadata_blocks(img):
    """set of block numbers that hold metadata (any kind except plain file data)"""
    bs = img.bs
    out = set()
    for o in metadata_map(img):
        if o.kind == "inode":
            continue
        first = o.off // bs
        n = (o.length + bs - 1) // bs
        if o.kind in ("sb",):
            out.add(o.off // bs)
            continue
        out.update(range(first, first + n))
    return out
