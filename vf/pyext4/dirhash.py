"""ext2/3/4 directory name hashes (legacy, half-MD4, TEA; signed and unsigned char
variants), written from the published algorithm descriptions."""
import struct

M32 = 0xFFFFFFFF

DX_HASH_LEGACY, DX_HASH_HALF_MD4, DX_HASH_TEA = 0, 1, 2
DX_HASH_LEGACY_UNSIGNED, DX_HASH_HALF_MD4_UNSIGNED, DX_HASH_TEA_UNSIGNED = 3, 4, 5
DX_HASH_SIPHASH = 6


def _tea(buf, inp):
    b0, b1 = buf[0], buf[1]
    a, b, c, d = inp[0], inp[1], inp[2], inp[3]
    s = 0
    for _ in range(16):
        s = (s + 0x9E3779B9) & M32
        b0 = (b0 + ((((b1 << 4) & M32) + a) ^ ((b1 + s) & M32) ^ ((b1 >> 5) + b))) & M32
        b1 = (b1 + ((((b0 << 4) & M32) + c) ^ ((b0 + s) & M32) ^ ((b0 >> 5) + d))) & M32
    buf[0] = (buf[0] + b0) & M32
    buf[1] = (buf[1] + b1) & M32


def _rol(x, s):
    return ((x << s) | (x >> (32 - s))) & M32


def _half_md4(buf, inp):
    a, b, c, d = buf

    def F(x, y, z):
        return (z ^ (x & (y ^ z))) & M32

    def G(x, y, z):
        return ((x & y) + ((x ^ y) & z)) & M32

    def H(x, y, z):
        return x ^ y ^ z

    K1, K2, K3 = 0, 0x5A827999, 0x6ED9EBA1

    def rnd(f, a, b, c, d, k, s):
        return _rol((a + f(b, c, d) + k) & M32, s)

    a = rnd(F, a, b, c, d, inp[0] + K1, 3)
    d = rnd(F, d, a, b, c, inp[1] + K1, 7)
    c = rnd(F, c, d, a, b, inp[2] + K1, 11)
    b = rnd(F, b, c, d, a, inp[3] + K1, 19)
    a = rnd(F, a, b, c, d, inp[4] + K1, 3)
    d = rnd(F, d, a, b, c, inp[5] + K1, 7)
    c = rnd(F, c, d, a, b, inp[6] + K1, 11)
    b = rnd(F, b, c, d, a, inp[7] + K1, 19)

    a = rnd(G, a, b, c, d, inp[1] + K2, 3)
    d = rnd(G, d, a, b, c, inp[3] + K2, 5)
    c = rnd(G, c, d, a, b, inp[5] + K2, 9)
    b = rnd(G, b, c, d, a, inp[7] + K2, 13)
    a = rnd(G, a, b, c, d, inp[0] + K2, 3)
    d = rnd(G, d, a, b, c, inp[2] + K2, 5)
    c = rnd(G, c, d, a, b, inp[4] + K2, 9)
    b = rnd(G, b, c, d, a, inp[6] + K2, 13)

    a = rnd(H, a, b, c, d, inp[3] + K3, 3)
    d = rnd(H, d, a, b, c, inp[7] + K3, 9)
    c = rnd(H, c, d, a, b, inp[2] + K3, 11)
    b = rnd(H, b, c, d, a, inp[6] + K3, 15)
    a = rnd(H, a, b, c, d, inp[1] + K3, 3)
    d = rnd(H, d, a, b, c, inp[5] + K3, 9)
    c = rnd(H, c, d, a, b, inp[0] + K3, 11)
    b = rnd(H, b, c, d, a, inp[4] + K3, 15)

    buf[0] = (buf[0] + a) & M32
    buf[1] = (buf[1] + b) & M32
    buf[2] = (buf[2] + c) & M32
    buf[3] = (buf[3] + d) & M32


def _legacy(name, unsigned):
    h0, h1 = 0x12A3FE2D, 0x37ABE8F9
    for ch in name:
        c = ch if unsigned else (ch - 256 if ch > 127 else ch)
        h = (h1 + (h0 ^ ((c * 7152373) & M32))) & M32
        if h & 0x80000000:
            h = (h - 0x7FFFFFFF) & M32
        h1 = h0
        h0 = h
    return (h0 << 1) & M32


def _str2hashbuf(msg, num, unsigned):
    """pack up to num*4 bytes of msg into num 32-bit words, kernel style"""
    ln = len(msg)
    pad = (ln | (ln << 8)) & M32
    pad |= (pad << 16) & M32
    val = pad
    if ln > num * 4:
        ln = num * 4
    out = []
    for i in range(ln):
        c = msg[i]
        if not unsigned and c > 127:
            c -= 256
        val = ((c & M32) + ((val << 8) & M32)) & M32
        if (i % 4) == 3:
            out.append(val)
            val = pad
            num -= 1
    num -= 1
    if num >= 0:
        out.append(val)
    while num > 0:
        num -= 1
        out.append(pad)
    return out


def dirhash(version, name, seed=(0, 0, 0, 0)):
    """Returns (hash, minor_hash).  hash has its low bit cleared."""
    buf = [0x67452301, 0xEFCDAB89, 0x98BADCFE, 0x10325476]
    if any(seed):
        buf = list(seed)
    unsigned = version in (DX_HASH_LEGACY_UNSIGNED, DX_HASH_HALF_MD4_UNSIGNED, DX_HASH_TEA_UNSIGNED)
    v = version - 3 if unsigned else version
    minor = 0
    if v == DX_HASH_LEGACY:
        h = _legacy(name, unsigned)
    elif v == DX_HASH_HALF_MD4:
        p = name
        ln = len(name)
        while ln > 0:
            inp = _str2hashbuf(p, 8, unsigned)
            _half_md4(buf, inp)
            ln -= 32
            p = p[32:]
        minor = buf[2]
        h = buf[1]
    elif v == DX_HASH_TEA:
        p = name
        ln = len(name)
        while ln > 0:
            inp = _str2hashbuf(p, 4, unsigned)
            _tea(buf, inp)
            ln -= 16
            p = p[16:]
        h = buf[0]
        minor = buf[1]
    else:
        raise ValueError("unsupported hash version %d" % version)
    h &= ~1 & M32
    if h == 0xFFFFFFFE:     # (EXT2_HTREE_EOF << 1)
        h = 0xFFFFFFFC
    return h, minor
