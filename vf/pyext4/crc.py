"""CRC primitives written from their definitions (no e2fsprogs code).

crc32c : Castagnoli, reflected, poly 0x82F63B78, *no* implicit pre/post inversion
         (ext4 passes the running value explicitly, starting from ~0).
crc16  : ANSI/IBM, reflected, poly 0xA001.
crc32_be: big-endian (MSB-first) CRC-32, poly 0x04C11DB7, no inversion (JBD2 v1).
"""


def crc32c_bitwise(crc, data):
    for b in data:
        crc ^= b
        for _ in range(8):
            crc = (crc >> 1) ^ (0x82F63B78 if crc & 1 else 0)
    return crc & 0xFFFFFFFF


def _mk_table(poly):
    t = []
    for i in range(256):
        c = i
        for _ in range(8):
            c = (c >> 1) ^ (poly if c & 1 else 0)
        t.append(c)
    return t


_T32C = _mk_table(0x82F63B78)
_T16 = _mk_table(0xA001)

# slice-by-4 tables for speed in pure python
_T32C_1 = [(_T32C[c & 0xFF] ^ (c >> 8)) for c in _T32C]
_T32C_2 = [(_T32C[c & 0xFF] ^ (c >> 8)) for c in _T32C_1]
_T32C_3 = [(_T32C[c & 0xFF] ^ (c >> 8)) for c in _T32C_2]


def crc32c(crc, data):
    t0, t1, t2, t3 = _T32C, _T32C_1, _T32C_2, _T32C_3
    mv = memoryview(data).cast("B") if not isinstance(data, (bytes, bytearray)) else data
    n = len(mv)
    i = 0
    n4 = n & ~3
    while i < n4:
        crc ^= mv[i] | (mv[i + 1] << 8) | (mv[i + 2] << 16) | (mv[i + 3] << 24)
        crc = t3[crc & 0xFF] ^ t2[(crc >> 8) & 0xFF] ^ t1[(crc >> 16) & 0xFF] ^ t0[crc >> 24]
        i += 4
    while i < n:
        crc = t0[(crc ^ mv[i]) & 0xFF] ^ (crc >> 8)
        i += 1
    return crc & 0xFFFFFFFF


def crc16(crc, data):
    t = _T16
    for b in data:
        crc = t[(crc ^ b) & 0xFF] ^ (crc >> 8)
    return crc & 0xFFFF


def crc16_bitwise(crc, data):
    for b in data:
        crc ^= b
        for _ in range(8):
            crc = (crc >> 1) ^ (0xA001 if crc & 1 else 0)
    return crc & 0xFFFF


def _mk_table_be(poly):
    t = []
    for i in range(256):
        c = i << 24
        for _ in range(8):
            c = ((c << 1) ^ poly) if c & 0x80000000 else (c << 1)
            c &= 0xFFFFFFFF
        t.append(c)
    return t


_T32BE = _mk_table_be(0x04C11DB7)


def crc32_be(crc, data):
    t = _T32BE
    for b in data:
        crc = ((crc << 8) & 0xFFFFFFFF) ^ t[((crc >> 24) ^ b) & 0xFF]
    return crc


def crc32_be_bitwise(crc, data):
    for b in data:
        crc ^= b << 24
        for _ in range(8):
            crc = ((crc << 1) ^ 0x04C11DB7) if crc & 0x80000000 else (crc << 1)
            crc &= 0xFFFFFFFF
    return crc


def selftest():
    import random
    r = random.Random(5)
    # known vector: CRC-32C("123456789") with init/xorout ~0 is 0xE3069283
    assert crc32c(0xFFFFFFFF, b"123456789") ^ 0xFFFFFFFF == 0xE3069283
    # CRC-16/ARC("123456789") = 0xBB3D (init 0)
    assert crc16(0, b"123456789") == 0xBB3D
    # CRC-32/MPEG-2 ("123456789") init ~0 no xorout = 0x0376E6E7
    assert crc32_be(0xFFFFFFFF, b"123456789") == 0x0376E6E7
    for _ in range(200):
        n = r.choice([0, 1, 2, 3, 4, 5, 7, 8, 9, 31, 64, 100, 257])
        d = bytes(r.getrandbits(8) for _ in range(n))
        s = r.getrandbits(32)
        assert crc32c(s, d) == crc32c_bitwise(s, d)
        assert crc16(s & 0xFFFF, d) == crc16_bitwise(s & 0xFFFF, d)
        assert crc32_be(s, d) == crc32_be_bitwise(s, d)
    return True
