"""tree_digest: path -> description of every object reachable from the root, read with
the independent reader.  Used for 'every file unchanged' comparisons."""
import hashlib
import struct

from . import image as I


def _h(b):
    return hashlib.sha256(b).hexdigest()[:24]


def describe_inode(img, ino, with_xattrs=True, with_times=False):
    i = img.inode(ino)
    d = {"ino_type": oct(i.fmt), "mode": i.mode & 0o7777, "uid": i.uid, "gid": i.gid,
         "nlink": i.links}
    if i.is_reg():
        hh = hashlib.sha256()
        holes = img.file_digest(i, hh)
        d["size"] = i.size
        d["sha"] = hh.hexdigest()[:24]
        d["holes"] = [(a, b) for a, b in holes]
    elif i.is_lnk():
        d["target"] = img.symlink_target(i).hex() if False else _h(img.symlink_target(i))
        d["size"] = i.size
    elif i.fmt in (I.S_IFCHR, I.S_IFBLK):
        ib = struct.unpack_from("<2I", i.i_block, 0)
        if ib[0]:
            major, minor = (ib[0] >> 8) & 0xFF, ib[0] & 0xFF
        else:
            major = (ib[1] & 0xFFF00) >> 8
            minor = (ib[1] & 0xFF) | ((ib[1] >> 12) & 0xFFF00)
        d["rdev"] = (major, minor)
    if with_times:
        d["mtime"] = i.mtime
    if with_xattrs:
        try:
            xs = img.xattrs(i)
        except I.FormatError as e:
            xs = {"!error": str(e)}
        d["xattrs"] = sorted(("%s.%s" % (k[0], k[1].decode("latin1")), _h(v))
                             for k, v in xs.items()) if "!error" not in xs else xs
    return d, i


def tree_digest(img, with_xattrs=True, with_times=False, holes=True, max_objects=200000):
    """Returns dict: path(bytes, '/'-joined) -> description dict.  Hard links share
    'ino_group' (an index assigned in discovery order, not the inode number, so that
    renumbering by resize2fs does not matter)."""
    out = {}
    groups = {}
    stack = [(b"", I.ROOT_INO)]
    seen_dirs = set()
    cache = {}
    while stack:
        path, ino = stack.pop()
        if ino in cache:
            d = dict(cache[ino])
        else:
            d, iobj = describe_inode(img, ino, with_xattrs, with_times)
            if not holes:
                d.pop("holes", None)
            cache[ino] = d
            d = dict(d)
        d["ino_group"] = groups.setdefault(ino, len(groups))
        out[path or b"/"] = d
        if len(out) > max_objects:
            raise I.FormatError("tree too large")
        if d["ino_type"] == oct(I.S_IFDIR):
            if ino in seen_dirs:
                raise I.FormatError("directory hard link / loop at inode %d" % ino)
            seen_dirs.add(ino)
            iobj = img.inode(ino)
            names = []
            for name, cino, ft in img.list_dir(iobj):
                if name in (b".", b".."):
                    continue
                names.append((name, cino))
            d["entries"] = len(names)
            for name, cino in sorted(names, reverse=True):
                stack.append((path + b"/" + name, cino))
    # normalise ino_group numbering by sorted path order so it is canonical
    order = {}
    for p in sorted(out):
        g = out[p]["ino_group"]
        if g not in order:
            order[g] = len(order)
        out[p]["ino_group"] = order[g]
    return out


def diff_digests(a, b, ignore=()):
    """list of human-readable differences between two tree digests"""
    diffs = []
    for p in sorted(set(a) | set(b)):
        if p not in a:
            diffs.append("added %r" % p)
        elif p not in b:
            diffs.append("missing %r" % p)
        else:
            da, db = a[p], b[p]
            for k in sorted(set(da) | set(db)):
                if k in ignore:
                    continue
                if da.get(k) != db.get(k):
                    diffs.append("%r: %s %r -> %r" % (p, k, da.get(k), db.get(k)))
    return diffs
