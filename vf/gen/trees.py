"""Deterministic host directory trees used to populate filesystems (mke2fs -d) and as the
reference for C18.  Everything is derived from the rng passed in; mtimes are fixed."""
import os
import socket
import stat

MTIME_BASE = 1400000000


def pattern(seed, n):
    """n bytes of compressible but position-sensitive content (period 251 + marker)."""
    if n <= 0:
        return b""
    unit = bytes(((seed * 131 + i * 7 + (i >> 3)) & 0xFF) for i in range(251))
    rep = (n // 251) + 1
    return (unit * rep)[:n]


def _name(rng, kind="mix"):
    alph = "abcdefghijklmnopqrstuvwxyzABCDEFGHIJKLMNOPQRSTUVWXYZ0123456789_-.,+=@"
    r = rng.random()
    if kind == "long":
        ln = rng.choice([120, 200, 250, 254, 255])
    elif r < 0.08:
        ln = rng.choice([1, 2, 3])
    elif r < 0.16:
        ln = rng.choice([4, 8, 12, 16, 59, 60, 61, 128, 255])
    else:
        ln = rng.randint(3, 24)
    s = "".join(rng.choice(alph) for _ in range(ln))
    if s in (".", ".."):
        s = "x" + s
    return s


def write_sparse(path, size, extents):
    """extents: list of (offset, length, seed).  Holes elsewhere."""
    with open(path, "wb") as f:
        for off, ln, seed in extents:
            f.seek(off)
            f.write(pattern(seed, ln))
        f.truncate(size)


FILE_SIZES = [0, 1, 10, 59, 60, 61, 100, 157, 200, 1000, 1023, 1024, 1025, 4095, 4096, 4097,
              12 * 1024, 12 * 1024 + 1, 13 * 1024, 48 * 1024, 49 * 1024, 70000, 268 * 1024 + 5,
              300000]


def make_tree(root, rng, profile="std", special=True, xattrs=True, big=False):
    """Create a tree under root (must not exist).  Returns a list of created relative paths."""
    os.makedirs(root)
    made = []
    dirs = [""]
    serial = [0]

    def uniq(d, nm):
        base = nm
        while os.path.lexists(os.path.join(root, d, nm)):
            serial[0] += 1
            nm = (base[:240] + "~%d" % serial[0])
        return nm

    nd = {"tiny": 2, "std": 6, "wide": 4}.get(profile, 6)
    for i in range(nd):
        parent = rng.choice(dirs)
        if parent.count("/") >= 5:
            parent = ""
        nm = uniq(parent, _name(rng))
        p = os.path.join(parent, nm)
        os.mkdir(os.path.join(root, p))
        dirs.append(p)
        made.append(p)
    regular = []
    nf = {"tiny": 6, "std": 40, "wide": 25}.get(profile, 40)
    sizes = list(FILE_SIZES)
    rng.shuffle(sizes)
    for i in range(nf):
        d = rng.choice(dirs)
        nm = uniq(d, _name(rng))
        p = os.path.join(d, nm)
        full = os.path.join(root, p)
        size = sizes[i % len(sizes)] if i < len(sizes) else rng.choice(FILE_SIZES)
        if big and i == 0:
            size = 3 * 1024 * 1024 + 17
        kind = rng.random()
        if size > 8192 and kind < 0.35:
            # sparse layouts: hole at start / middle / end, data shorter than a block
            lay = rng.choice(["start", "middle", "end", "islands", "tiny-data"])
            if lay == "start":
                ext = [(size // 2, size - size // 2, i)]
            elif lay == "middle":
                ext = [(0, size // 4, i), (size - size // 4, size // 4, i + 1)]
            elif lay == "end":
                ext = [(0, size // 3, i)]
            elif lay == "islands":
                ext = [(o, 700, i + o) for o in range(0, size - 700, max(9000, size // 6))]
            else:
                ext = [(size // 2 + 5, 10, i)]
            write_sparse(full, size, ext)
        else:
            with open(full, "wb") as f:
                f.write(pattern(i + 1, size))
        os.chmod(full, rng.choice([0o644, 0o600, 0o755, 0o444, 0o4755, 0o2755, 0o1777, 0o7777,
                                   0o000, 0o640]))
        regular.append(p)
        made.append(p)
    # hard links (also across directories)
    for i in range(min(5, len(regular))):
        src = rng.choice(regular)
        d = rng.choice(dirs)
        nm = uniq(d, _name(rng))
        os.link(os.path.join(root, src), os.path.join(root, d, nm))
        made.append(os.path.join(d, nm))
    # symlinks: short, around the 60-byte fast limit, long
    for ln in [1, 10, 59, 60, 61, 100, 255, 1000]:
        d = rng.choice(dirs)
        nm = uniq(d, _name(rng))
        target = ("t" * ln)
        if ln == 10:
            target = "../" + "x" * 7
        try:
            os.symlink(target, os.path.join(root, d, nm))
            made.append(os.path.join(d, nm))
        except OSError:
            pass
    if special:
        d = rng.choice(dirs)
        for kind in ("fifo", "chr", "blk", "sock"):
            nm = uniq(d, kind + "_" + _name(rng)[:8])
            full = os.path.join(root, d, nm)
            try:
                if kind == "fifo":
                    os.mkfifo(full, 0o640)
                elif kind == "chr":
                    os.mknod(full, 0o660 | stat.S_IFCHR, os.makedev(rng.choice([1, 4, 136, 255, 300]),
                                                                   rng.choice([0, 3, 255, 256, 70000])))
                elif kind == "blk":
                    os.mknod(full, 0o600 | stat.S_IFBLK, os.makedev(rng.choice([7, 8, 259]),
                                                                   rng.choice([0, 1, 16, 300])))
                else:
                    if len(full) < 100:
                        s = socket.socket(socket.AF_UNIX)
                        s.bind(full)
                        s.close()
                    else:
                        os.mknod(full, 0o600 | stat.S_IFSOCK)
                made.append(os.path.join(d, nm))
            except OSError:
                pass
    # a directory with many entries (htree material)
    if profile in ("std", "wide"):
        d = uniq("", "many")
        os.mkdir(os.path.join(root, d))
        made.append(d)
        cnt = 70 if profile == "std" else 420
        for i in range(cnt):
            nm = uniq(d, _name(rng, "long" if profile == "wide" or i % 3 == 0 else "mix"))
            full = os.path.join(root, d, nm)
            if i % 17 == 0:
                os.mkdir(full)
            else:
                with open(full, "wb") as f:
                    if i % 5 == 0:
                        f.write(pattern(i, 30))
            made.append(os.path.join(d, nm))
        dirs.append(d)
    # ownership and xattrs
    for p in made:
        full = os.path.join(root, p)
        if rng.random() < 0.5:
            try:
                os.lchown(full, rng.choice([0, 1, 1000, 65534, 65535, 65536, 100000, 2 ** 31,
                                            2 ** 32 - 2]),
                          rng.choice([0, 5, 1000, 65536, 2 ** 32 - 2]))
            except OSError:
                pass
        st = os.lstat(full)
        want = False
        if xattrs and stat.S_ISREG(st.st_mode):
            want = rng.random() < 0.3
        elif xattrs and stat.S_ISDIR(st.st_mode):
            want = rng.random() < 0.2
        if want:
            try:
                for j in range(rng.choice([1, 1, 2, 3])):
                    vlen = rng.choice([0, 1, 8, 40, 100, 250])
                    os.setxattr(full, "user.k%d_%s" % (j, _name(rng)[:10]),
                                pattern(j + 3, vlen), follow_symlinks=False)
            except OSError:
                pass
    # fixed mtimes (after all modifications; directories last, bottom-up)
    allp = sorted(made, key=lambda x: -x.count("/"))
    for k, p in enumerate(allp + [""]):
        full = os.path.join(root, p)
        t = MTIME_BASE + (hash_str(p) % 600000000)
        try:
            os.utime(full, (t, t), follow_symlinks=False)
        except (OSError, NotImplementedError):
            pass
    return made


def hash_str(s):
    h = 0
    for ch in s.encode("utf-8", "surrogateescape"):
        h = (h * 131 + ch) & 0xFFFFFFFF
    return h
