"""Host directory trees for C18 (populate / extract exactness).

A tree is first generated as a *spec* (a JSON-able list of object descriptors, everything
derived from the rng), then materialised on the host with `materialise`.  Keeping the spec
separate from the host tree makes a failing case replayable and minimisable (drop objects
from the spec, materialise again).

Names are arbitrary bytes (kept in the spec as latin-1 strings).  Object kinds:
  dir, reg, lnk, chr, blk, fifo, sock, hard (hard link to an earlier non-directory object),
  mount (a directory that is the mount point of a fresh tmpfs: objects created in the same
  order inside two such mounts get the same st_ino on different st_dev).
"""
import os
import socket
import stat
import subprocess
import time

PAGE = 4096
DEPTH_MAX = 6

UIDS = [0, 0, 1, 1000, 65534, 65535, 65536, 100000, 2 ** 31 - 1, 2 ** 31, 2 ** 32 - 2]
GIDS = [0, 0, 5, 1000, 65535, 65536, 70000, 2 ** 31, 2 ** 32 - 2]
MTIMES = [0, 1, 86399, 86400, 10 ** 9, 1234567890, 1400000000, 1499999999, 1500000000, 1500000001,
          1893456000, 2 ** 31 - 2, 2 ** 31 - 1]
MODES = [0o644, 0o600, 0o755, 0o444, 0o4755, 0o2755, 0o1777, 0o7777, 0o000, 0o640, 0o4000, 0o2000,
         0o1000, 0o6711, 0o111, 0o222, 0o7000, 0o3775]
FILE_SIZES = [0, 0, 1, 10, 59, 60, 61, 100, 157, 158, 200, 1000, 1023, 1024, 1025, 4095, 4096, 4097,
              8192, 12 * 1024 - 1, 12 * 1024, 12 * 1024 + 1, 13 * 1024, 48 * 1024, 49 * 1024 + 1, 65536,
              70000, 131072 + 7, 268 * 1024, 268 * 1024 + 5, 300000, 1048576 + 3]
BIG_SIZE = 3 * 1024 * 1024
ALPH = b"abcdefghijklmnopqrstuvwxyzABCDEFGHIJKLMNOPQRSTUVWXYZ0123456789_-.,+=@"
ODD = b" !\"#$%&'()*;<>?[\\]^`{|}~\t"


def pattern(seed, n):
    """n bytes of position-sensitive content without an all-zero 1 KiB block."""
    if n <= 0:
        return b""
    unit = bytes(((seed * 131 + i * 7 + (i >> 3)) & 0xFF) | (1 if i % 64 == 0 else 0) for i in range(251))
    return (unit * (n // 251 + 1))[:n]


def _b2s(b):
    return b.decode("latin-1")


def s2b(s):
    return s.encode("latin-1")


def gen_name(rng, cls=None):
    """A file name (bytes): 1..255 bytes, no '/' and no NUL."""
    r = rng.random()
    if cls is None:
        cls = ("short" if r < 0.55 else "len" if r < 0.66 else "dash" if r < 0.72 else
               "space" if r < 0.78 else "bin" if r < 0.87 else "odd" if r < 0.93 else
               "nl" if r < 0.94 else "long")
    if cls == "short":
        n = bytes(rng.choice(ALPH) for _ in range(rng.randint(3, 20)))
    elif cls == "len":
        ln = rng.choice([1, 1, 2, 3, 4, 8, 59, 60, 61, 127, 128, 129, 254, 255])
        n = bytes(rng.choice(ALPH) for _ in range(ln))
    elif cls == "dash":
        n = rng.choice([b"-", b"--", b"-rf", b"-f", b"-p", b"-x ", b"--help"]) + \
            bytes(rng.choice(ALPH) for _ in range(rng.randint(0, 6)))
    elif cls == "space":
        core = bytes(rng.choice(ALPH) for _ in range(rng.randint(0, 6)))
        n = rng.choice([b" " + core, core + b" ", b" " + core + b" ", core + b"  " + core, b" ", b"  "])
    elif cls == "bin":
        ln = rng.choice([1, 2, 5, 17, 64, 255])
        n = bytes(rng.choice([0x80, 0xff, 0xfe, 0xc3, 0x28, 0xa0, 0xe2, 0x82, 0xed, 0xa0, 0x7f, 0x01,
                              0x1b, 0xc0, 0xaf]) if rng.random() < 0.7 else rng.choice(ALPH)
                  for _ in range(ln))
    elif cls == "odd":
        n = bytes(rng.choice(ODD) if rng.random() < 0.5 else rng.choice(ALPH)
                  for _ in range(rng.randint(1, 12)))
    elif cls == "nl":
        n = b"new\nline" + bytes(rng.choice(ALPH) for _ in range(3))
    else:
        n = bytes(rng.choice(ALPH) for _ in range(rng.choice([120, 200, 250, 254, 255])))
    if n in (b".", b"..") or not n:
        n = b"x" + n
    return n[:255]


def _attrs(rng, kind, xbudget, small=False):
    a = {"uid": rng.choice(UIDS), "gid": rng.choice(GIDS),
         "mtime": rng.choice(MTIMES) if rng.random() < 0.5 else rng.randint(0, 2 ** 31 - 1)}
    if kind != "lnk":
        a["mode"] = rng.choice(MODES) if rng.random() < 0.8 else rng.randint(0, 0o7777)
    if kind in ("reg", "dir", "mount") and xbudget > 0 and rng.random() < (0.15 if small else 0.35):
        xs = []
        left = xbudget
        for j in range(rng.choice([1, 1, 2, 3, 4])):
            nlen = rng.choice([1, 3, 8, 20, 60, 120])
            name = "user." + "".join(chr(rng.choice(ALPH)) for _ in range(nlen))
            vlen = rng.choice([0, 1, 4, 8, 40, 100, 250, 500, 1500, 3000])
            cost = 16 + len(name) + 4 + vlen + 4
            if cost > left:
                vlen = max(0, min(vlen, left - (16 + len(name) + 8)))
                cost = 16 + len(name) + 4 + vlen + 4
                if cost > left:
                    break
            left -= cost
            xs.append([name, rng.randrange(1 << 16), vlen])
        if xs:
            a["xattrs"] = xs
    return a


def _layout(rng, size, i):
    """data extents [(off, len, seed)] of a sparse file, or None for a dense file"""
    if size == 0:
        return None
    r = rng.random()
    if size < PAGE:
        return [] if r < 0.15 else None          # all-hole small file / dense
    if r < 0.5:
        return None
    lay = rng.choice(["start", "middle", "end", "islands", "tiny", "allhole", "lastblock", "zeros",
                      "end", "start"])
    pg = lambda x: (x // PAGE) * PAGE
    if lay == "start":
        o = max(PAGE, pg(size // 2))
        return [(o, size - o, i)]
    if lay == "middle":
        a = max(1, size // 4)
        if rng.random() < 0.5:
            a = min(a, PAGE - 7)
        o = max(pg(size - size // 4), pg(a) + 2 * PAGE)
        if o >= size:
            return [(0, a, i)]
        return [(0, a, i), (o, size - o, i + 1)]
    if lay == "end":
        return [(0, rng.choice([1, 100, PAGE, size // 3]), i)]
    if lay == "islands":
        step = max(3 * PAGE, pg(size // 7))
        return [(o + rng.choice([0, 5, 1024, 3000]), rng.choice([1, 700, 1024, 5000]), i + o)
                for o in range(0, max(1, size - 6000), step)]
    if lay == "tiny":
        return [(size // 2 + 5, 10, i)]
    if lay == "allhole":
        return []
    if lay == "lastblock":
        o = pg(size - 1)
        return [(o, size - o, i)] if o > 0 else None
    # "zeros": explicit zero bytes written in the middle (host data, content zero)
    return [(0, 600, i), (pg(size // 2), -PAGE, 0), (size - 1, 1, i + 2)]


def gen_spec(rng, min_bs=1024, small_inode=False, xdev=False, big=False, scale=1.0):
    """Returns {"objs": [...], "root_xattrs": [...]}; objects reference their parent by index
    (-1 = the tree root) and always follow it in the list."""
    objs = []
    names = {}          # parent -> set of names
    depth = {-1: 0}
    xbudget = (min_bs - 160) if not small_inode else (min_bs - 200)
    xbudget = min(xbudget, 3400)

    def add(parent, kind, cls=None, name=None, **kw):
        used = names.setdefault(parent, set())
        nm = name if name is not None else gen_name(rng, cls)
        k = 0
        while nm in used or (parent == -1 and nm == b"lost+found"):
            k += 1
            nm = nm[:250] + b"~%d" % k
        used.add(nm)
        o = {"parent": parent, "name": _b2s(nm), "k": kind}
        o.update(kw)
        if kind != "hard":
            o.update(_attrs(rng, kind, xbudget, small=(kind == "reg" and kw.get("size", 0) == 0
                                                       and rng.random() < 0.7)))
        objs.append(o)
        idx = len(objs) - 1
        if kind in ("dir", "mount"):
            depth[idx] = depth[parent] + 1
        return idx

    dirs = [-1]
    # a chain down to the maximum depth in some trees, otherwise random nesting
    nd = max(2, int(rng.choice([3, 5, 8, 12]) * min(1.0, scale * 2)))
    if rng.random() < 0.4:
        p = -1
        for _ in range(DEPTH_MAX):
            p = add(p, "dir", cls=rng.choice(["short", "long", "len", None]))
            dirs.append(p)
    for _ in range(nd):
        parent = rng.choice(dirs)
        if depth[parent] >= DEPTH_MAX:
            parent = -1
        dirs.append(add(parent, "dir"))
    empty_dir = add(rng.choice(dirs), "dir")          # fan-out 0
    # regular files
    regs = []
    sizes = list(FILE_SIZES)
    rng.shuffle(sizes)
    nf = max(4, int(rng.choice([10, 18, 28]) * scale))
    budget = 5 << 20
    for i in range(nf):
        size = sizes[i % len(sizes)]
        if big and i == 0:
            size = BIG_SIZE + rng.choice([0, 17, -1, 4096])
        if size > budget:
            size = 1000
        budget -= size if size < BIG_SIZE else size // 4
        lay = _layout(rng, size, i + 1)
        if big and i == 0:
            lay = _layout(rng, size, 1) if rng.random() < 0.6 else None
        regs.append(add(rng.choice(dirs), "reg", size=size, seed=rng.randrange(1 << 16), ext=lay))
    # always at least one of each sparse flavour that matters
    for size, ext in ((40960 + 123, [(0, 5000, 7)]),                        # hole at EOF
                      (65536, [(32768, 32768, 8)]),                         # hole at start
                      (100000, [(0, 4096, 9), (98304, 1696, 10)]),          # hole in the middle
                      (20000, [(8192 + 100, 10, 11)])):                     # data shorter than a block
        regs.append(add(rng.choice(dirs), "reg", size=size, seed=rng.randrange(1 << 16),
                        ext=[list(e) for e in ext]))
    # symlinks
    lens = [1, 59, 60, 61, min(min_bs - 1, 4095)] + \
        rng.sample([2, 30, 58, 62, 100, 255, 256, 1000, 1023, min_bs - 2, min(min_bs - 1, 4095)], 3)
    lnks = []
    for ln in lens:
        ln = max(1, min(ln, min_bs - 1, 4095))
        r = rng.random()
        if r < 0.5:
            t = (b"../" * (ln // 3) + b"t" * ln)[:ln]
        elif r < 0.8:
            t = bytes(rng.choice(ALPH + b"/ ") for _ in range(ln))
        else:
            t = bytes(rng.choice([0xff, 0x80, 0xc3, 0x20, 0x22, 0x5c, 0x61, 0x2f, 0x0a if rng.random() < 0.1
                                  else 0x62]) for _ in range(ln))
        lnks.append(add(rng.choice(dirs), "lnk", target=_b2s(t)))
    # special files
    specials = []
    d = rng.choice(dirs)
    for kind in ["fifo", "chr", "blk", "sock", rng.choice(["chr", "blk"]), rng.choice(["fifo", "sock"])]:
        kw = {}
        if kind in ("chr", "blk"):
            kw = {"major": rng.choice([0, 1, 4, 8, 136, 255, 256, 259, 300, 4095]),
                  "minor": rng.choice([0, 3, 16, 255, 256, 300, 65535, 65536, 70000, (1 << 20) - 1])}
        specials.append(add(d if rng.random() < 0.5 else rng.choice(dirs), kind, **kw))
    # a directory with many entries
    fan = rng.choice([1, 2, 30, 120, 250, 400])
    fan = max(1, int(fan * min(1.0, scale * 1.5)))
    parent = rng.choice(dirs)
    if depth[parent] >= DEPTH_MAX:
        parent = -1
    many = add(parent, "dir", name=b"many" + gen_name(rng, "short")[:4])
    longnames = rng.random() < 0.5
    for i in range(fan):
        cls = "long" if (longnames or i % 7 == 0) else None
        if i % 23 == 5 and depth[many] < DEPTH_MAX:
            add(many, "dir", cls=cls)
        elif i % 11 == 3:
            regs.append(add(many, "reg", cls=cls, size=rng.choice([1, 30, 61, 200]),
                            seed=rng.randrange(1 << 16), ext=None))
        else:
            add(many, "reg", cls=cls, size=0, seed=0, ext=None)
    dirs.append(many)
    # hard links: regular files across directories, one special file, one symlink
    for _ in range(rng.choice([3, 4, 6])):
        add(rng.choice(dirs), "hard", to=rng.choice(regs))
    src = rng.choice(regs)
    for _ in range(2):                                 # a group of three
        add(rng.choice(dirs), "hard", to=src)
    add(rng.choice(dirs), "hard", to=rng.choice(specials))
    if rng.random() < 0.35:
        add(rng.choice(dirs), "hard", to=rng.choice(lnks))
    if xdev:
        # two fresh tmpfs mounts populated in the same order: same st_ino, different st_dev
        for tag in (b"A", b"B"):
            m = add(rng.choice([-1, dirs[1]]), "mount", name=b"mnt" + tag + gen_name(rng, "short")[:3])
            f1 = add(m, "reg", name=b"f1", size=5000, seed=ord(tag), ext=None)
            add(m, "hard", name=b"f1-link", to=f1)
            sub = add(m, "dir", name=b"sub")
            f2 = add(sub, "reg", name=b"f2", size=777, seed=ord(tag) + 1, ext=None)
            add(m, "hard", name=b"f2-link", to=f2)
            add(sub, "fifo", name=b"pipe")
    spec = {"objs": objs, "min_bs": min_bs}
    ra = _attrs(rng, "dir", xbudget)
    if "xattrs" in ra:
        spec["root_xattrs"] = ra["xattrs"]
    return spec


# ---------------------------------------------------------------------------------------
# spec editing (for minimisation)

def prune(spec, keep):
    """A copy of spec containing only the objects whose index is in `keep` (plus what they
    depend on is NOT added: objects whose parent or link target is dropped are dropped)."""
    objs = spec["objs"]
    alive = {}
    out = []
    for i, o in enumerate(objs):
        if i not in keep:
            continue
        if o["parent"] != -1 and o["parent"] not in alive:
            continue
        if o["k"] == "hard" and o["to"] not in alive:
            continue
        n = dict(o)
        n["parent"] = alive[o["parent"]] if o["parent"] != -1 else -1
        if o["k"] == "hard":
            n["to"] = alive[o["to"]]
        alive[i] = len(out)
        out.append(n)
    s = dict(spec)
    s["objs"] = out
    return s


# ---------------------------------------------------------------------------------------
# materialisation

def _relpath(objs, i):
    parts = []
    while i != -1:
        parts.append(s2b(objs[i]["name"]))
        i = objs[i]["parent"]
    return b"/".join(reversed(parts))


def _mount_tmpfs(path):
    r = subprocess.run(["mount", "-t", "tmpfs", "-o", "size=8m,mode=755", "c18tmpfs", path],
                       stdout=subprocess.DEVNULL, stderr=subprocess.PIPE)
    if r.returncode != 0:
        raise OSError("mount tmpfs failed: %s" % r.stderr.decode("utf-8", "replace"))


def umount_all(mounts):
    for m in reversed(mounts):
        subprocess.run(["umount", "-l", m], stdout=subprocess.DEVNULL, stderr=subprocess.DEVNULL)


def stale_mounts(prefix):
    """mount points under `prefix` left behind by a killed run"""
    out = []
    pb = prefix if isinstance(prefix, bytes) else os.fsencode(prefix)
    try:
        with open("/proc/mounts", "rb") as f:
            for line in f:
                parts = line.split(b" ")
                if len(parts) > 2 and parts[0] == b"c18tmpfs":
                    mp = parts[1].decode("unicode_escape").encode("latin-1")
                    if mp.startswith(pb):
                        out.append(mp)
    except OSError:
        pass
    return sorted(out, key=len, reverse=True)


def write_file(full, size, seed, ext):
    with open(full, "wb") as f:
        if ext is None:
            f.write(pattern(seed, size))
        else:
            for off, ln, sd in ext:
                if off >= size:
                    continue
                f.seek(off)
                if ln < 0:                       # explicit zeros
                    f.write(bytes(min(-ln, size - off)))
                else:
                    f.write(pattern(sd, min(ln, size - off)))
            f.truncate(size)


def materialise(spec, root, mounts):
    """Create the tree at `root` (bytes path; must not exist).  Mount points created are
    appended to `mounts` (the caller unmounts them with umount_all, also on failure)."""
    if isinstance(root, str):
        root = os.fsencode(root)
    objs = spec["objs"]
    os.makedirs(root)
    paths = [None] * len(objs)
    for i, o in enumerate(objs):
        rel = _relpath(objs, i)
        full = os.path.join(root, rel)
        paths[i] = full
        k = o["k"]
        if k == "dir":
            os.mkdir(full)
        elif k == "mount":
            os.mkdir(full)
            try:
                _mount_tmpfs(full)
                mounts.append(full)
            except OSError:
                pass                # not privileged enough: an ordinary directory instead
        elif k == "reg":
            write_file(full, o["size"], o.get("seed", 0), o.get("ext"))
        elif k == "lnk":
            os.symlink(s2b(o["target"]), full)
        elif k == "hard":
            os.link(paths[o["to"]], full, follow_symlinks=False)
        elif k == "fifo":
            os.mkfifo(full, 0o600)
        elif k == "chr":
            os.mknod(full, 0o600 | stat.S_IFCHR, os.makedev(o["major"], o["minor"]))
        elif k == "blk":
            os.mknod(full, 0o600 | stat.S_IFBLK, os.makedev(o["major"], o["minor"]))
        elif k == "sock":
            nm = s2b(o["name"])
            bound = False
            if len(nm) <= 60 and b"\0" not in nm:
                dfd = os.open(os.path.dirname(full), os.O_RDONLY | os.O_DIRECTORY)
                try:
                    s = socket.socket(socket.AF_UNIX)
                    try:
                        s.bind(b"/proc/self/fd/%d/" % dfd + nm)
                        bound = True
                    except OSError:
                        pass
                    finally:
                        s.close()
                finally:
                    os.close(dfd)
            if not bound:
                os.mknod(full, 0o600 | stat.S_IFSOCK)
        else:
            raise ValueError(k)
    now = int(time.time())

    def setx(full, xs):
        for name, sd, vlen in xs:
            os.setxattr(full, name.encode("latin-1"), pattern(sd + 3, vlen), follow_symlinks=False)

    for i, o in enumerate(objs):
        if o["k"] == "hard":
            continue
        full = paths[i]
        os.lchown(full, o["uid"], o["gid"])
        if o["k"] != "lnk":
            os.chmod(full, o["mode"])
        if o.get("xattrs"):
            setx(full, o["xattrs"])
    if spec.get("root_xattrs"):
        setx(root, spec["root_xattrs"])
    # times last, deepest first; atime is put in the future so that relatime never updates it
    # (reading the tree must not change the inputs of the second, identical build)
    order = sorted(range(len(objs)), key=lambda i: -paths[i].count(b"/"))
    for i in order:
        o = objs[i]
        if o["k"] == "hard":
            continue
        mt = o["mtime"]
        os.utime(paths[i], (max(mt, now) + 3600, mt), follow_symlinks=False)
    os.utime(root, (now + 3600, 1400000000))
    return paths
