"""Structured and unstructured corruption operators over a finite, enumerable universe.

case_id in [0, N) -> (base image, list of byte patches, printable descriptor).  The mapping
depends only on (universe tag, case_id, base image bytes), never on the seed of a run; a
run's seed only chooses which ids it executes.
"""
import os
import random
import struct

from .pyext4 import image as I
from .pyext4 import meta as M

GD_FIELDS = [("bg_block_bitmap_lo", 0, 4), ("bg_inode_bitmap_lo", 4, 4), ("bg_inode_table_lo", 8, 4),
             ("bg_free_blocks_count_lo", 12, 2), ("bg_free_inodes_count_lo", 14, 2),
             ("bg_used_dirs_count_lo", 16, 2), ("bg_flags", 18, 2), ("bg_exclude_bitmap_lo", 20, 4),
             ("bg_block_bitmap_csum_lo", 24, 2), ("bg_inode_bitmap_csum_lo", 26, 2),
             ("bg_itable_unused_lo", 28, 2), ("bg_checksum", 30, 2)]
GD_FIELDS64 = [("bg_block_bitmap_hi", 32, 4), ("bg_inode_bitmap_hi", 36, 4), ("bg_inode_table_hi", 40, 4),
               ("bg_free_blocks_count_hi", 44, 2), ("bg_free_inodes_count_hi", 46, 2),
               ("bg_used_dirs_count_hi", 48, 2), ("bg_itable_unused_hi", 50, 2),
               ("bg_block_bitmap_csum_hi", 56, 2), ("bg_inode_bitmap_csum_hi", 58, 2)]
GD_SUMMARY = {"bg_free_blocks_count_lo", "bg_free_inodes_count_lo", "bg_used_dirs_count_lo",
              "bg_itable_unused_lo", "bg_checksum", "bg_block_bitmap_csum_lo",
              "bg_inode_bitmap_csum_lo", "bg_block_bitmap_csum_hi", "bg_inode_bitmap_csum_hi"}

INODE_FIELDS = [("i_mode", 0, 2), ("i_uid", 2, 2), ("i_size_lo", 4, 4), ("i_atime", 8, 4),
                ("i_ctime", 12, 4), ("i_mtime", 16, 4), ("i_dtime", 20, 4), ("i_gid", 24, 2),
                ("i_links_count", 26, 2), ("i_blocks_lo", 28, 4), ("i_flags", 32, 4),
                ("i_osd1", 36, 4)] + [("i_block[%d]" % k, 40 + 4 * k, 4) for k in range(15)] + [
    ("i_generation", 100, 4), ("i_file_acl_lo", 104, 4), ("i_size_high", 108, 4),
    ("i_blocks_high", 116, 2), ("i_file_acl_high", 118, 2), ("i_uid_high", 120, 2),
    ("i_gid_high", 122, 2), ("i_checksum_lo", 124, 2)]
INODE_EXTRA = [("i_extra_isize", 128, 2), ("i_checksum_hi", 130, 2), ("i_ctime_extra", 132, 4),
               ("i_mtime_extra", 136, 4), ("i_crtime", 144, 4), ("i_projid", 156, 4)]

SB_SKIP = {"s_uuid", "s_volume_name", "s_last_mounted", "s_journal_uuid", "s_mount_opts",
           "s_hash_seed", "s_jnl_blocks", "s_backup_bgs"}
SB_SUMMARY = {"s_free_blocks_count_lo", "s_free_inodes_count", "s_free_blocks_hi", "s_checksum",
              "s_kbytes_written", "s_wtime", "s_mtime", "s_mnt_count", "s_lastcheck"}

JSB_FIELDS = [("h_magic", 0, 4), ("h_blocktype", 4, 4), ("h_sequence", 8, 4), ("s_blocksize", 12, 4),
              ("s_maxlen", 16, 4), ("s_first", 20, 4), ("s_sequence", 24, 4), ("s_start", 28, 4),
              ("s_errno", 32, 4), ("s_feature_compat", 36, 4), ("s_feature_incompat", 40, 4),
              ("s_feature_ro_compat", 44, 4), ("s_nr_users", 64, 4), ("s_dynsuper", 68, 4),
              ("s_max_transaction", 72, 4), ("s_max_trans_data", 76, 4), ("s_checksum_type", 80, 1),
              ("s_num_fc_blocks", 84, 4), ("s_checksum", 0xFC, 4)]


def _fmt(size):
    return {1: "B", 2: "<H", 4: "<I", 8: "<Q"}[size]


def mutate_value(rng, v, size, other=None, be=False):
    mx = (1 << (8 * size)) - 1
    ops = ["zero", "one", "max", "max-1", "inc", "dec", "bitflip", "rand", "half", "double"]
    if other is not None:
        ops.append("other")
    op = rng.choice(ops)
    if op == "zero":
        nv = 0
    elif op == "one":
        nv = 1
    elif op == "max":
        nv = mx
    elif op == "max-1":
        nv = mx - 1
    elif op == "inc":
        nv = (v + 1) & mx
    elif op == "dec":
        nv = (v - 1) & mx
    elif op == "bitflip":
        nv = v ^ (1 << rng.randrange(8 * size))
    elif op == "half":
        nv = v >> 1
    elif op == "double":
        nv = (v << 1) & mx
    elif op == "other":
        nv = other & mx
    else:
        nv = rng.getrandbits(8 * size)
    if nv == v:
        nv = v ^ 1
        op += "^1"
    return nv, op


class Case:
    __slots__ = ("cid", "image", "patches", "descr", "cls", "op_patches", "fix_sb_csum")

    def __init__(self, cid, image, patches, descr, cls, op_patches=None, fix_sb_csum=False):
        self.cid, self.image, self.patches, self.descr, self.cls = cid, image, patches, descr, cls
        self.op_patches = op_patches or []
        self.fix_sb_csum = fix_sb_csum

    def to_json(self):
        return {"cid": self.cid, "image": self.image, "descr": self.descr, "cls": self.cls,
                "patches": [[o, b.hex()] for o, b in self.patches]}


def apply_patches(path, patches):
    with open(path, "r+b") as f:
        size = os.fstat(f.fileno()).st_size
        for off, b in patches:
            if off < 0 or off >= size:
                continue
            f.seek(off)
            f.write(b[:max(0, size - off)])


class ImageInfo:
    """cached view of one base image: metadata objects grouped by kind"""

    def __init__(self, name, path):
        self.name, self.path = name, path
        with I.Image(path) as img:
            self.bs = img.bs
            self.size = img.size
            self.blocks_count = img.blocks_count
            self.inode_size = img.inode_size
            self.desc_size = img.desc_size
            self.groups = img.groups
            self.is64 = img.is64
            self.features = img.sb.features()
            self.ipg = img.sb.s_inodes_per_group
            self.cpg = img.sb.s_clusters_per_group
            self.first_ino = img.sb.first_ino
            self.journal_inum = img.sb.s_journal_inum
            objs = M.metadata_map(img)
            self.by_kind = {}
            for o in objs:
                self.by_kind.setdefault(o.kind, []).append(o)
            # inode details needed by operators
            self.inodes = {}
            for o in self.by_kind.get("inode", []):
                i = img.inode(o.ino)
                self.inodes[o.ino] = {"off": o.off, "fmt": i.fmt, "flags": i.flags,
                                      "extra": i.extra_isize, "size": i.size, "isdir": i.is_dir()}
            self.gd_off = []
            for g in range(img.groups):
                blk = img.gdt_location(g // img.descs_per_block)
                self.gd_off.append(blk * img.bs + (g % img.descs_per_block) * img.desc_size)
            # used (non-zero) blocks for unstructured mutation
            self.used_blocks = []
            data = img.data
            z = bytes(img.bs)
            nb = min(img.blocks_count, img.size // img.bs)
            for b in range(nb):
                if data[b * img.bs:(b + 1) * img.bs] != z:
                    self.used_blocks.append(b)

    def read(self, off, n):
        with open(self.path, "rb") as f:
            f.seek(off)
            return f.read(n)


STRUCT_KINDS = ["sb", "gd", "bitmap", "inode", "inode_iblock", "ext_node", "ind_block", "dir_leaf",
                "dx", "xattr_block", "xattr_inode", "journal_sb", "special_inode", "block_op",
                "bytes", "sb_backup", "mmp", "orphan", "quota_data"]
# weights steer the universe towards the interesting object classes
KIND_WEIGHTS = {"sb": 10, "gd": 10, "bitmap": 8, "inode": 14, "inode_iblock": 10, "ext_node": 7,
                "ind_block": 4, "dir_leaf": 12, "dx": 8, "xattr_block": 5, "xattr_inode": 4,
                "journal_sb": 4, "special_inode": 6, "block_op": 6, "bytes": 8, "sb_backup": 1,
                "mmp": 1, "orphan": 2, "quota_data": 2, "dir_clear": 2, "reloc": 2}


class Universe:
    def __init__(self, tag, images, size):
        """images: dict name -> path of *consistent* base images (sorted by name)."""
        self.tag, self.size = tag, size
        self.names = sorted(images)
        self.paths = images
        self._info = {}

    def info(self, name):
        if name not in self._info:
            self._info[name] = ImageInfo(name, self.paths[name])
        return self._info[name]

    # ---------------------------------------------------------------------------------
    def case(self, cid, profile="all"):
        rng = random.Random("%s|%s|%d" % (self.tag, profile, cid))
        name = self.names[cid % len(self.names)]
        inf = self.info(name)
        if profile == "summary":
            nops = rng.choice([1, 1, 2, 3, 5, 8])
            gen = self._summary_op
        elif profile == "bytes":
            nops = rng.choice([1, 2, 4])
            gen = lambda r, i: self._op(r, i, "bytes")
        else:
            nops = rng.choice([1, 1, 1, 1, 2, 2, 3, 5])
            gen = None
        patches, descr, op_patches = [], [], []
        kinds = list(KIND_WEIGHTS)
        weights = [KIND_WEIGHTS[k] for k in kinds]
        for _ in range(nops):
            for _try in range(6):
                if gen:
                    r = gen(rng, inf)
                else:
                    r = self._op(rng, inf, rng.choices(kinds, weights)[0])
                if r:
                    break
            if not r:
                continue
            p, d = r
            patches.extend(p)
            op_patches.append(list(p))
            descr.append(d)
        if not patches:
            p, d = self._op(rng, inf, "bytes")
            patches.extend(p)
            op_patches.append(list(p))
            descr.append(d)
        return self._finish(cid, name, inf, profile, descr, op_patches)

    def directed(self, k):
        """A few directed cases outside the numbered universe (negative ids in the checks): the
        directory with the most entries of image k is wiped, so that hundreds of inodes have to be
        reconnected (lost+found grows by whole blocks / clusters)."""
        name = self.names[k % len(self.names)]
        inf = self.info(name)
        count = {}
        first_blk = {}
        for o in inf.by_kind.get("dir_leaf", []):
            count[o.ino] = count.get(o.ino, 0) + 1
            if o.lblk == 0:
                first_blk[o.ino] = o.off // inf.bs
        cand = [i for i in count if i >= inf.first_ino and inf.inodes.get(i, {}).get("isdir")]
        if not cand:
            return None
        # (lost+found is pre-allocated with many empty blocks: it is not the interesting one to wipe)
        ino = max([i for i in cand if i != inf.first_ino] or cand, key=lambda i: (count[i], -i))
        if 2 * len(self.names) <= k < 4 * len(self.names):
            # cross-claim: a regular file with a higher inode number maps the first block of a
            # multi-block directory as its own first block (passes 1B-1D have to clone it; with
            # bigalloc the blocks of the directory share a cluster)
            multi = [i for i in cand if count[i] >= 2 and i in first_blk]
            if not multi:
                return None
            dino = min(multi, key=lambda i: (-count[i], i)) if (k // len(self.names)) % 2 == 0 else min(multi)
            for fino in sorted(inf.inodes):
                fi = inf.inodes[fino]
                if fino <= dino or fi.get("isdir") or fi["size"] < inf.bs:
                    continue
                raw = inf.read(fi["off"], 128)
                mode = struct.unpack_from("<H", raw, 0)[0]
                if (mode & 0xF000) != 0x8000 or (fi["flags"] & (I.FL_INLINE_DATA | I.FL_EA_INODE)):
                    continue
                if fi["flags"] & I.FL_EXTENTS:
                    magic, entries, _mx, depth = struct.unpack_from("<HHHH", raw, 0x28)
                    if magic != 0xF30A or depth != 0 or entries < 1:
                        continue
                    at = fi["off"] + 0x28 + 12 + 8
                    hi_at = fi["off"] + 0x28 + 12 + 6
                    p = [(at, struct.pack("<I", first_blk[dino] & 0xFFFFFFFF)),
                         (hi_at, struct.pack("<H", first_blk[dino] >> 32))]
                else:
                    if struct.unpack_from("<I", raw, 0x28)[0] == 0:
                        continue
                    p = [(fi["off"] + 0x28, struct.pack("<I", first_blk[dino]))]
                d = [("inode", "first-block", "claims-dir-block", "ino%d -> block %d of directory ino%d (%d blocks)"
                      % (fino, first_blk[dino], dino, count[dino]))]
                return self._finish(-(k + 1), name, inf, "all", d, [p])
            return None
        how = ["zero-inode", "mode-0"][(k // len(self.names)) % 2]
        base = inf.inodes[ino]["off"]
        p = [(base, bytes(128))] if how == "zero-inode" else [(base, b"\0\0")]
        d = [("inode", "dir", how, "ino%d (largest directory)" % ino)]
        if k >= 4 * len(self.names):
            # ... and /lost+found gone as well: the new one starts with a single block (cluster) and
            # has to grow while the orphans are reconnected
            lf = inf.inodes.get(inf.first_ino)
            if not lf or not lf.get("isdir") or ino == inf.first_ino:
                return None
            return self._finish(-(k + 1), name, inf, "all",
                                d + [("inode", "dir", "zero-inode", "ino%d (lost+found)" % inf.first_ino)],
                                [p, [(lf["off"], bytes(128))]])
        return self._finish(-(k + 1), name, inf, "all", d, [p])

    def subset(self, case, keep, profile="all"):
        """the same case with only the operators whose indices are in `keep`"""
        inf = self.info(case.image)
        return self._finish(case.cid, case.image, inf, profile,
                            [case.descr[i] for i in keep], [case.op_patches[i] for i in keep])

    def _finish(self, cid, name, inf, profile, descr, op_patches):
        patches = [p for ops in op_patches for p in ops]
        if profile == "summary" and "metadata_csum" in inf.features and \
                any(d[0] == "sb" and d[1] != "s_checksum" for d in descr) and \
                not any(d[0] == "sb" and d[1] == "s_checksum" for d in descr):
            # keep the damage confined to the count: recompute the superblock checksum
            from .pyext4 import crc as _crc
            sbraw = bytearray(inf.read(1024, 1024))
            for off, b in patches:
                if 1024 <= off < 2048:
                    sbraw[off - 1024: off - 1024 + len(b)] = b[:2048 - off]
            c = _crc.crc32c(0xFFFFFFFF, bytes(sbraw[:1020]))
            patches.append((1024 + 1020, struct.pack("<I", c)))
        cls = "+".join(sorted(set("%s.%s" % (d[0], d[1]) for d in descr)))
        return Case(cid, name, patches, descr, cls, op_patches)

    # ---------------------------------------------------------------------------------
    def _reloc(self, rng, inf):
        """A block or inode bitmap of group g is moved, consistently, onto a block that belongs to
        something else: its content is copied, the descriptor repointed (checksum recomputed), the
        old block freed (block bitmap, bitmap checksum, group count, descriptor checksum).  What is
        left is exactly one inconsistency: two owners for the target block."""
        from .pyext4 import crc as _crc
        with I.Image(inf.path) as img:
            if img.groups < 2 or img.ratio != 1:
                return None
            sb = img.sb
            bs = img.bs
            gds = img.group_descs()
            cand = [g for g in range(img.groups) if not (img.has_gdt_csum and
                                                         gds[g].flags & (I.BG_BLOCK_UNINIT | I.BG_INODE_UNINIT))]
            if not cand:
                return None
            g = rng.choice(cand)
            which = rng.choice(["block_bitmap", "inode_bitmap"])
            old = getattr(gds[g], which)
            # targets: the backup superblock / descriptor blocks of another group, a block of
            # another group's inode table, the first data block of some file
            targets = []
            for j in range(1, img.groups):
                if j != g and img.bg_has_super(j):
                    first = img.group_first_block(j)
                    targets.append(("backup-sb grp%d" % j, first))
                    targets.append(("backup-gdt grp%d" % j, first + 1))
            for j in range(img.groups):
                if j != g and gds[j].inode_table:
                    targets.append(("itable grp%d" % j, gds[j].inode_table + rng.randrange(
                        max(1, sb.s_inodes_per_group * img.inode_size // bs))))
            if inf.by_kind.get("dir_leaf"):
                o = rng.choice(inf.by_kind["dir_leaf"])
                targets.append(("dirblock ino%d" % o.ino, o.off // bs))
            if not targets:
                return None
            tname, T = rng.choice(targets)
            if T <= 0 or T >= img.blocks_count or T == old:
                return None
            patches = [(T * bs, bytes(img.blk(old)))]
            # the descriptor of g
            off = inf.gd_off[g]
            raw = bytearray(gds[g].raw)
            lo = 0 if which == "block_bitmap" else 4
            struct.pack_into("<I", raw, lo, T & 0xFFFFFFFF)
            if img.is64 and img.desc_size >= 64:
                struct.pack_into("<I", raw, 32 + lo, T >> 32)
            # free the old block in its group's block bitmap
            og = (old - sb.s_first_data_block) // sb.s_blocks_per_group
            ogd = gds[og]
            obm_blk = ogd.block_bitmap if not (og == g and which == "block_bitmap") else T
            bm = bytearray(img.blk(ogd.block_bitmap))
            bit = (old - sb.s_first_data_block) % sb.s_blocks_per_group
            bm[bit >> 3] &= ~(1 << (bit & 7))
            patches.append((obm_blk * bs, bytes(bm)))
            if og == g and which == "block_bitmap":
                patches[0] = (T * bs, bytes(bm))
            oraw = raw if og == g else bytearray(ogd.raw)
            fb = ogd.free_blocks + 1
            struct.pack_into("<H", oraw, 12, fb & 0xFFFF)
            if img.is64 and img.desc_size >= 64:
                struct.pack_into("<H", oraw, 44, fb >> 16)
            if img.has_csum:
                c = _crc.crc32c(sb.csum_seed(), bytes(bm[:sb.s_clusters_per_group // 8]))
                struct.pack_into("<H", oraw, 24, c & 0xFFFF)
                if img.desc_size >= 64:
                    struct.pack_into("<H", oraw, 56, c >> 16)
            for gg, rr in ((g, raw),) + (((og, oraw),) if og != g else ()):
                cs = img.gd_csum(gg, bytes(rr))
                if cs is not None:
                    struct.pack_into("<H", rr, 30, cs)
                patches.append((inf.gd_off[gg], bytes(rr)))
        return patches, ("gd", "bg_%s" % which, "relocate-onto", "grp%d blk%d -> %s blk%d" % (g, old, tname, T))

    def _field_patch(self, rng, inf, base_off, fields, kind, other_off=None):
        name, off, size = rng.choice(fields)
        raw = inf.read(base_off + off, size)
        if len(raw) < size:
            return None
        v = struct.unpack(_fmt(size), raw)[0]
        other = None
        if other_off is not None:
            ro = inf.read(other_off + off, size)
            if len(ro) == size:
                other = struct.unpack(_fmt(size), ro)[0]
        nv, op = mutate_value(rng, v, size, other)
        return [(base_off + off, struct.pack(_fmt(size), nv))], (kind, name, op, "%#x->%#x" % (v, nv))

    def _op(self, rng, inf, kind):
        bs = inf.bs
        bk = inf.by_kind
        if kind == "sb":
            fields = [(n, o, struct.calcsize(f)) for n, o, f in I.SB_FIELDS
                      if n not in SB_SKIP and struct.calcsize(f) in (1, 2, 4, 8)]
            return self._field_patch(rng, inf, 1024, fields, "sb")
        if kind == "sb_backup":
            objs = bk.get("sb_backup", [])
            if not objs:
                return None
            o = rng.choice(objs)
            fields = [(n, off, struct.calcsize(f)) for n, off, f in I.SB_FIELDS
                      if n not in SB_SKIP and struct.calcsize(f) in (1, 2, 4, 8)]
            return self._field_patch(rng, inf, o.off, fields, "sb_backup")
        if kind == "gd":
            g = rng.randrange(inf.groups)
            fields = GD_FIELDS + (GD_FIELDS64 if inf.is64 and inf.desc_size >= 64 else [])
            og = rng.randrange(inf.groups)
            return self._field_patch(rng, inf, inf.gd_off[g], fields, "gd", inf.gd_off[og])
        if kind == "bitmap":
            which = rng.choice(["bbitmap", "ibitmap"])
            objs = bk.get(which, [])
            if not objs:
                return None
            o = rng.choice(objs)
            nbits = (inf.cpg if which == "bbitmap" else inf.ipg)
            mode = rng.choice(["bit", "bit", "bit", "byte", "tail", "zero", "ones"])
            raw = inf.read(o.off, bs)
            if mode == "bit":
                # prefer positions near a 0/1 boundary
                k = rng.randrange(nbits)
                for _ in range(8):
                    kk = rng.randrange(nbits)
                    if kk + 1 < nbits and ((raw[kk >> 3] >> (kk & 7)) & 1) != ((raw[(kk + 1) >> 3] >> ((kk + 1) & 7)) & 1):
                        k = kk + rng.choice([0, 1])
                        break
                nb = raw[k >> 3] ^ (1 << (k & 7))
                return [(o.off + (k >> 3), bytes([nb]))], (which, "bit", "flip", "grp%d bit%d" % (o.group, k))
            if mode == "byte":
                k = rng.randrange(nbits // 8)
                return [(o.off + k, bytes([rng.getrandbits(8)]))], (which, "byte", "rand", "grp%d byte%d" % (o.group, k))
            if mode == "tail":
                k = rng.randrange(nbits // 8, bs) if nbits // 8 < bs else bs - 1
                return [(o.off + k, bytes([raw[k] ^ 0xFF]))], (which, "padding", "invert", "grp%d byte%d" % (o.group, k))
            if mode == "zero":
                return [(o.off, bytes(nbits // 8))], (which, "all", "zero", "grp%d" % o.group)
            return [(o.off, b"\xff" * (nbits // 8))], (which, "all", "ones", "grp%d" % o.group)
        if kind == "dir_clear":
            # a directory inode is wiped: everything below it has to be reconnected
            dirs = [i for i in sorted(inf.inodes) if i >= inf.first_ino and inf.inodes[i].get("isdir")]
            if not dirs:
                return None
            ino = rng.choice(dirs)
            how = rng.choice(["zero-inode", "zero-inode", "mode-0", "links-0+dtime"])
            base = inf.inodes[ino]["off"]
            if how == "zero-inode":
                return [(base, bytes(128))], ("inode", "dir", "zero-inode", "ino%d" % ino)
            if how == "mode-0":
                return [(base, b"\0\0")], ("inode", "dir", "mode-0", "ino%d" % ino)
            return [(base + 26, b"\0\0"), (base + 20, b"\x01\x02\x03\x04")], \
                ("inode", "dir", "links-0+dtime", "ino%d" % ino)
        if kind == "reloc":
            return self._reloc(rng, inf)
        if kind in ("inode", "inode_iblock", "special_inode", "xattr_inode"):
            inos = sorted(inf.inodes)
            if not inos:
                return None
            if kind == "special_inode":
                cand = [i for i in inos if i < inf.first_ino or (inf.inodes[i]["flags"] & I.FL_EA_INODE)]
                if not cand:
                    return None
                ino = rng.choice(cand)
            else:
                ino = rng.choice(inos)
            d = inf.inodes[ino]
            base = d["off"]
            other = inf.inodes[rng.choice(inos)]["off"]
            if kind == "inode" or kind == "special_inode":
                fields = list(INODE_FIELDS)
                if inf.inode_size > 128:
                    fields += INODE_EXTRA
                r = self._field_patch(rng, inf, base, fields, "inode", other)
                if r:
                    return r[0], ("inode" if kind == "inode" else "special_inode", r[1][1], r[1][2],
                                  "ino%d %s" % (ino, r[1][3]))
                return None
            if kind == "inode_iblock":
                if d["flags"] & I.FL_EXTENTS:
                    raw = inf.read(base + 40, 60)
                    entries = struct.unpack_from("<H", raw, 2)[0]
                    depth = struct.unpack_from("<H", raw, 6)[0]
                    fields = [("eh_magic", 0, 2), ("eh_entries", 2, 2), ("eh_max", 4, 2), ("eh_depth", 6, 2)]
                    for k in range(min(entries, 4)):
                        if depth == 0:
                            fields += [("ee_block", 12 + 12 * k, 4), ("ee_len", 16 + 12 * k, 2),
                                       ("ee_start_hi", 18 + 12 * k, 2), ("ee_start_lo", 20 + 12 * k, 4)]
                        else:
                            fields += [("ei_block", 12 + 12 * k, 4), ("ei_leaf_lo", 16 + 12 * k, 4),
                                       ("ei_leaf_hi", 20 + 12 * k, 2)]
                    r = self._field_patch(rng, inf, base + 40, fields, "inode_extent_root", other + 40)
                else:
                    fields = [("i_block[%d]" % k, 4 * k, 4) for k in range(15)]
                    r = self._field_patch(rng, inf, base + 40, fields, "inode_blockmap", other + 40)
                if r:
                    return r[0], (r[1][0], r[1][1].split("[")[0], r[1][2], "ino%d %s" % (ino, r[1][3]))
                return None
            if kind == "xattr_inode":
                if inf.inode_size <= 128 or not d["extra"]:
                    return None
                xoff = base + 128 + d["extra"]
                raw = inf.read(xoff, inf.inode_size - 128 - d["extra"])
                if len(raw) < 20 or struct.unpack_from("<I", raw, 0)[0] != I.XATTR_MAGIC:
                    return None
                fields = [("magic", 0, 4), ("e_name_len", 4, 1), ("e_name_index", 5, 1),
                          ("e_value_offs", 6, 2), ("e_value_inum", 8, 4), ("e_value_size", 12, 4),
                          ("e_hash", 16, 4)]
                r = self._field_patch(rng, inf, xoff, fields, "xattr_inode")
                if r:
                    return r[0], (r[1][0], r[1][1], r[1][2], "ino%d %s" % (ino, r[1][3]))
                return None
        if kind == "ext_node":
            objs = bk.get("ext_node", [])
            if not objs:
                return None
            o = rng.choice(objs)
            raw = inf.read(o.off, 12)
            entries = struct.unpack_from("<H", raw, 2)[0]
            depth = struct.unpack_from("<H", raw, 6)[0]
            fields = [("eh_magic", 0, 2), ("eh_entries", 2, 2), ("eh_max", 4, 2), ("eh_depth", 6, 2)]
            ks = sorted(set([0, 1, max(0, entries - 1), rng.randrange(max(1, entries))]))
            for k in ks:
                if 12 + 12 * k + 12 > bs:
                    continue
                if depth == 0:
                    fields += [("ee_block", 12 + 12 * k, 4), ("ee_len", 16 + 12 * k, 2),
                               ("ee_start_hi", 18 + 12 * k, 2), ("ee_start_lo", 20 + 12 * k, 4)]
                else:
                    fields += [("ei_block", 12 + 12 * k, 4), ("ei_leaf_lo", 16 + 12 * k, 4),
                               ("ei_leaf_hi", 20 + 12 * k, 2)]
            mx = struct.unpack_from("<H", raw, 4)[0]
            if 12 + 12 * mx + 4 <= bs:
                fields.append(("et_checksum", 12 + 12 * mx, 4))
            r = self._field_patch(rng, inf, o.off, fields, "ext_node")
            if r:
                return r[0], (r[1][0], r[1][1], r[1][2], "ino%d %s" % (o.ino, r[1][3]))
            return None
        if kind == "ind_block":
            objs = bk.get("ind_block", [])
            if not objs:
                return None
            o = rng.choice(objs)
            raw = inf.read(o.off, bs)
            nz = [k for k in range(bs // 4) if raw[4 * k:4 * k + 4] != b"\0\0\0\0"]
            k = rng.choice(nz) if nz and rng.random() < 0.8 else rng.randrange(bs // 4)
            other = o.off + 4 * rng.choice(nz) - 4 * k if nz else None
            r = self._field_patch(rng, inf, o.off, [("ptr", 4 * k, 4)], "ind_block",
                                  (other if other is not None else None))
            if r:
                return r[0], (r[1][0], r[1][1], r[1][2], "ino%d slot%d %s" % (o.ino, k, r[1][3]))
            return None
        if kind == "dir_leaf":
            objs = bk.get("dir_leaf", [])
            if not objs:
                return None
            o = rng.choice(objs)
            if rng.random() < 0.12:
                # the same name two, three or four times in one directory (different inodes)
                ents = []
                for ob in objs:
                    if ob.ino != o.ino:
                        continue
                    rw = inf.read(ob.off, bs)
                    q = 0
                    while q + 8 <= bs and len(ents) < 4000:
                        ino_, rl, nl_ = struct.unpack_from("<IHB", rw, q)
                        if rl < 8 or rl % 4 or q + rl > bs:
                            break
                        nm = rw[q + 8:q + 8 + nl_]
                        if ino_ and nl_ and nm not in (b".", b"..") and 8 + nl_ <= rl:
                            ents.append((ob.off + q, rl, nm))
                        q += rl
                if len(ents) >= 3:
                    src = rng.choice(ents)
                    vict = [e for e in ents if e is not src and e[1] - 8 >= len(src[2])]
                    rng.shuffle(vict)
                    vict = vict[:rng.choice([1, 2, 2, 3])]
                    if vict:
                        pp = []
                        for off_, rl, nm in vict:
                            pp.append((off_ + 6, bytes([len(src[2])])))
                            pp.append((off_ + 8, src[2]))
                        return pp, ("dir_leaf", "name", "dup-x%d" % (len(vict) + 1),
                                    "dir%d %r" % (o.ino, src[2][:24]))
            raw = inf.read(o.off, bs)
            offs = []
            p = 0
            while p + 8 <= bs and len(offs) < 400:
                rl = struct.unpack_from("<H", raw, p + 4)[0]
                offs.append(p)
                if rl < 8 or rl % 4 or p + rl > bs:
                    break
                p += rl
            p = rng.choice(offs[:2] + offs[-2:] + [rng.choice(offs)])
            nl = raw[p + 6]
            fields = [("inode", 0, 4), ("rec_len", 4, 2), ("name_len", 6, 1), ("file_type", 7, 1)]
            if nl:
                fields.append(("name_byte", 8 + rng.randrange(nl), 1))
            if p == offs[-1] and raw[p + 7] == 0xDE:
                fields = [("tail_inode", 0, 4), ("tail_rec_len", 4, 2), ("tail_name_len", 6, 1),
                          ("tail_ft", 7, 1), ("tail_csum", 8, 4)]
            # another dirent of the same block supplies the 'other' value
            q = rng.choice(offs)
            r = self._field_patch(rng, inf, o.off + p, fields, "dir_leaf", o.off + q)
            if r:
                return r[0], (r[1][0], r[1][1], r[1][2], "dir%d lblk%d +%d %s" % (o.ino, o.lblk, p, r[1][3]))
            return None
        if kind == "dx":
            objs = bk.get("dx_root", []) + bk.get("dx_node", [])
            if not objs:
                return None
            o = rng.choice(objs)
            raw = inf.read(o.off, bs)
            co = 32 if o.kind == "dx_root" else 8
            limit, count = struct.unpack_from("<HH", raw, co)
            fields = [("limit", co, 2), ("count", co + 2, 2), ("block0", co + 4, 4)]
            if o.kind == "dx_root":
                fields += [("dot_inode", 0, 4), ("dot_rec_len", 4, 2), ("dotdot_inode", 12, 4),
                           ("dotdot_rec_len", 16, 2), ("reserved_zero", 24, 4), ("hash_version", 28, 1),
                           ("info_length", 29, 1), ("indirect_levels", 30, 1), ("unused_flags", 31, 1)]
            else:
                fields += [("fake_inode", 0, 4), ("fake_rec_len", 4, 2)]
            for k in sorted(set([1, max(1, count - 1), rng.randrange(1, max(2, count))])):
                if k < count and co + 8 * k + 8 <= bs:
                    fields += [("hash", co + 8 * k, 4), ("block", co + 8 * k + 4, 4)]
            if co + 8 * limit + 8 <= bs:
                fields += [("dt_reserved", co + 8 * limit, 4), ("dt_checksum", co + 8 * limit + 4, 4)]
            r = self._field_patch(rng, inf, o.off, fields, o.kind)
            if r:
                return r[0], (r[1][0], r[1][1], r[1][2], "dir%d lblk%d %s" % (o.ino, o.lblk, r[1][3]))
            return None
        if kind == "xattr_block":
            objs = bk.get("xattr_block", [])
            if not objs:
                return None
            o = rng.choice(objs)
            fields = [("h_magic", 0, 4), ("h_refcount", 4, 4), ("h_blocks", 8, 4), ("h_hash", 12, 4),
                      ("h_checksum", 16, 4), ("e_name_len", 32, 1), ("e_name_index", 33, 1),
                      ("e_value_offs", 34, 2), ("e_value_inum", 36, 4), ("e_value_size", 40, 4),
                      ("e_hash", 44, 4), ("e_name0", 48, 1), ("value_tail", bs - 1, 1)]
            r = self._field_patch(rng, inf, o.off, fields, "xattr_block")
            if r:
                return r[0], (r[1][0], r[1][1], r[1][2], "ino%d %s" % (o.ino, r[1][3]))
            return None
        if kind == "journal_sb":
            objs = [o for o in bk.get("journal", []) if o.lblk == 0]
            if not objs:
                return None
            o = objs[0]
            name, off, size = rng.choice(JSB_FIELDS)
            raw = inf.read(o.off + off, size)
            v = int.from_bytes(raw, "big")
            nv, op = mutate_value(rng, v, size)
            return [(o.off + off, nv.to_bytes(size, "big"))], ("journal_sb", name, op, "%#x->%#x" % (v, nv))
        if kind == "mmp":
            objs = bk.get("mmp", [])
            if not objs:
                return None
            o = objs[0]
            fields = [("mmp_magic", 0, 4), ("mmp_seq", 4, 4), ("mmp_check_interval", 16, 2),
                      ("mmp_checksum", 1020, 4)]
            return self._field_patch(rng, inf, o.off, fields, "mmp")
        if kind in ("orphan", "quota_data"):
            objs = [o for o in bk.get("special_data", [])]
            if not objs:
                return None
            o = rng.choice(objs)
            k = rng.randrange(bs // 4)
            if rng.random() < 0.3:
                k = rng.choice([0, 1, 2, bs // 4 - 1, bs // 4 - 2])
            r = self._field_patch(rng, inf, o.off, [("word", 4 * k, 4)], "special_data")
            if r:
                return r[0], (r[1][0], r[1][1], r[1][2], "ino%d lblk%s word%d %s" % (o.ino, o.lblk, k, r[1][3]))
            return None
        if kind == "block_op":
            kinds = [k for k in ("gdt", "bbitmap", "ibitmap", "ext_node", "ind_block", "dir_leaf",
                                 "dx_root", "dx_node", "xattr_block", "journal", "special_data",
                                 "symlink", "itable") if bk.get(k)]
            if not kinds:
                return None
            k1 = rng.choice(kinds)
            o = rng.choice(bk[k1])
            off = o.off
            if k1 == "itable":
                off = o.off + bs * rng.randrange(max(1, o.length // bs))
            op = rng.choice(["zero", "ones", "rand", "copy", "swap"])
            if op == "zero":
                return [(off, bytes(bs))], ("block_op", k1, "zero", "blk%d" % (off // bs))
            if op == "ones":
                return [(off, b"\xff" * bs)], ("block_op", k1, "ones", "blk%d" % (off // bs))
            if op == "rand":
                return [(off, bytes(rng.getrandbits(8) for _ in range(bs)))], \
                    ("block_op", k1, "rand", "blk%d" % (off // bs))
            k2 = rng.choice(kinds)
            o2 = rng.choice(bk[k2])
            src = inf.read(o2.off, bs)
            if op == "copy":
                return [(off, src)], ("block_op", k1, "copy-from-" + k2, "blk%d<-blk%d" % (off // bs, o2.off // bs))
            dst = inf.read(off, bs)
            return [(off, src), (o2.off, dst)], ("block_op", k1, "swap-with-" + k2,
                                                 "blk%d<->blk%d" % (off // bs, o2.off // bs))
        if kind == "bytes":
            ub = inf.used_blocks
            if not ub:
                return None
            b = rng.choice(ub)
            n = rng.choice([1, 1, 2, 4, 8])
            off = b * bs + rng.randrange(bs - n + 1)
            old = inf.read(off, n)
            mode = rng.choice(["rand", "flip", "zero", "ff"])
            if mode == "rand":
                new = bytes(rng.getrandbits(8) for _ in range(n))
            elif mode == "flip":
                new = bytes(x ^ (1 << rng.randrange(8)) for x in old)
            elif mode == "zero":
                new = bytes(n)
            else:
                new = b"\xff" * n
            if new == old:
                new = bytes([old[0] ^ 1]) + old[1:]
            return [(off, new)], ("bytes", "used_block", mode, "blk%d+%d n%d" % (b, off % bs, n))
        return None

    # ---------------------------------------------------------------------------------
    def _summary_op(self, rng, inf):
        """Corruptions confined to allocation summaries and checksum fields (C05-b)."""
        bs = inf.bs
        bk = inf.by_kind
        choice = rng.choice(["bitmap", "bitmap", "gd", "gd", "sb", "csum"])
        has_csum = "metadata_csum" in inf.features
        if choice == "bitmap":
            which = rng.choice(["bbitmap", "ibitmap"])
            o = rng.choice(bk[which])
            nbits = inf.cpg if which == "bbitmap" else inf.ipg
            raw = inf.read(o.off, bs)
            k = rng.randrange(nbits)
            n = rng.choice([1, 1, 1, 2, 8, 30])
            out = bytearray(raw[:nbits // 8])
            for j in range(k, min(nbits, k + n)):
                out[j >> 3] ^= 1 << (j & 7)
            lo, hi = k >> 3, (min(nbits, k + n) - 1) >> 3
            return [(o.off + lo, bytes(out[lo:hi + 1]))], (which, "bits", "flip", "grp%d bit%d+%d" % (o.group, k, n))
        if choice == "gd":
            g = rng.randrange(inf.groups)
            fields = [f for f in GD_FIELDS + (GD_FIELDS64 if inf.is64 and inf.desc_size >= 64 else [])
                      if f[0] in GD_SUMMARY]
            if rng.random() < 0.2:
                # BLOCK_UNINIT / INODE_UNINIT / ZEROED flag bits
                raw = inf.read(inf.gd_off[g] + 18, 2)
                v = struct.unpack("<H", raw)[0]
                nv = v ^ rng.choice([1, 2, 4])
                return [(inf.gd_off[g] + 18, struct.pack("<H", nv))], ("gd", "bg_flags", "flipflag", "grp%d %#x->%#x" % (g, v, nv))
            r = self._field_patch(rng, inf, inf.gd_off[g], fields, "gd")
            if r:
                return r[0], (r[1][0], r[1][1], r[1][2], "grp%d %s" % (g, r[1][3]))
            return None
        if choice == "sb":
            fields = [(n, o, struct.calcsize(f)) for n, o, f in I.SB_FIELDS
                      if n in ("s_free_blocks_count_lo", "s_free_inodes_count", "s_checksum")]
            return self._field_patch(rng, inf, 1024, fields, "sb")
        # checksum fields of otherwise intact metadata
        if not has_csum:
            return None
        which = rng.choice(["inode", "ext_node", "dir_leaf", "dx", "xattr_block", "gd"])
        if which == "inode":
            inos = sorted(inf.inodes)
            ino = rng.choice(inos)
            base = inf.inodes[ino]["off"]
            f = [("i_checksum_lo", 124, 2)]
            if inf.inode_size > 128 and inf.inodes[ino]["extra"] >= 4:
                f.append(("i_checksum_hi", 130, 2))
            r = self._field_patch(rng, inf, base, f, "inode")
            if r:
                return r[0], (r[1][0], r[1][1], r[1][2], "ino%d %s" % (ino, r[1][3]))
            return None
        if which == "ext_node" and bk.get("ext_node"):
            o = rng.choice(bk["ext_node"])
            mx = struct.unpack("<H", inf.read(o.off + 4, 2))[0]
            if 12 + 12 * mx + 4 <= bs:
                return self._field_patch(rng, inf, o.off, [("et_checksum", 12 + 12 * mx, 4)], "ext_node")
            return None
        if which == "dir_leaf" and bk.get("dir_leaf"):
            o = rng.choice(bk["dir_leaf"])
            if inf.read(o.off + bs - 12, 8) == b"\0\0\0\0\x0c\0\0\xde":
                return self._field_patch(rng, inf, o.off, [("tail_csum", bs - 4, 4)], "dir_leaf")
            return None
        if which == "dx" and (bk.get("dx_root") or bk.get("dx_node")):
            o = rng.choice(bk.get("dx_root", []) + bk.get("dx_node", []))
            co = 32 if o.kind == "dx_root" else 8
            limit = struct.unpack("<H", inf.read(o.off + co, 2))[0]
            if co + 8 * limit + 8 <= bs:
                return self._field_patch(rng, inf, o.off, [("dt_checksum", co + 8 * limit + 4, 4)], o.kind)
            return None
        if which == "xattr_block" and bk.get("xattr_block"):
            o = rng.choice(bk["xattr_block"])
            return self._field_patch(rng, inf, o.off, [("h_checksum", 16, 4)], "xattr_block")
        if which == "gd":
            g = rng.randrange(inf.groups)
            return self._field_patch(rng, inf, inf.gd_off[g], [("bg_checksum", 30, 2)], "gd")
        return None
