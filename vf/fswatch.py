"""Watching a file for modification by a child process, without sharing code with the child.

Two independent witnesses:

* snapshot()/diff_snap(): SHA-256 of the bytes, size, data/hole map (SEEK_DATA/SEEK_HOLE),
  inode identity and mtime/ctime of the file before and after.
* strace_argv()/parse_trace(): the child runs under `strace -f -y`; every write-class system
  call is attributed to a path through strace's fd annotation (`3</path/to/file>`), which does
  not depend on anything inside the traced program.

Also a table-driven crc32c (Castagnoli, raw: no pre/post inversion, same convention as the
ext4 on-disk checksums) for writers of hand-crafted metadata blocks.
"""
import hashlib
import os
import re

# ---------------------------------------------------------------------------------------
# snapshots


def hole_map(path):
    """Tuple of (start, end) byte ranges that hold data; everything else below st_size is a
    hole."""
    out = []
    fd = os.open(path, os.O_RDONLY)
    try:
        size = os.fstat(fd).st_size
        off = 0
        while off < size:
            try:
                d = os.lseek(fd, off, os.SEEK_DATA)
            except OSError:         # ENXIO: no data after off
                break
            try:
                h = os.lseek(fd, d, os.SEEK_HOLE)
            except OSError:
                h = size
            out.append((d, h))
            off = h
    finally:
        os.close(fd)
    return tuple(out)


def snapshot(path):
    """State of a file as seen from outside: None if it does not exist."""
    try:
        st = os.stat(path)
    except FileNotFoundError:
        return None
    h = hashlib.sha256()
    with open(path, "rb") as f:
        while True:
            b = f.read(1 << 20)
            if not b:
                break
            h.update(b)
    return {"size": st.st_size, "sha256": h.hexdigest(), "data": hole_map(path),
            "ino": (st.st_dev, st.st_ino), "mtime_ns": st.st_mtime_ns, "ctime_ns": st.st_ctime_ns,
            "nlink": st.st_nlink, "mode": st.st_mode}


def diff_snap(a, b):
    """List of (class, detail).  Classes: 'replaced' (gone, appeared, or another inode under
    the same name), 'size', 'bytes', 'holes' are modifications of the file; 'mtime' means the
    kernel recorded a write/truncate although size, bytes and hole map are the same."""
    if a is None and b is None:
        return []
    if a is None or b is None:
        return [("replaced", "file %s" % ("appeared" if a is None else "disappeared"))]
    out = []
    if a["ino"] != b["ino"]:
        out.append(("replaced", "inode %s -> %s" % (a["ino"], b["ino"])))
    if a["size"] != b["size"]:
        out.append(("size", "%d -> %d" % (a["size"], b["size"])))
    if a["sha256"] != b["sha256"]:
        out.append(("bytes", "sha256 %s.. -> %s.." % (a["sha256"][:16], b["sha256"][:16])))
    if a["data"] != b["data"]:
        sa, sb = set(a["data"]), set(b["data"])
        out.append(("holes", "%d -> %d data extents; only before %s; only after %s" %
                    (len(a["data"]), len(b["data"]), sorted(sa - sb)[:3], sorted(sb - sa)[:3])))
    if not out and a["mtime_ns"] != b["mtime_ns"]:
        out.append(("mtime", "mtime_ns %d -> %d" % (a["mtime_ns"], b["mtime_ns"])))
    return out


def first_difference(p1, p2, gran=1024):
    """(first differing byte offset, number of differing `gran`-byte granules) of two files."""
    first = None
    n = 0
    with open(p1, "rb") as f1, open(p2, "rb") as f2:
        off = 0
        while True:
            a = f1.read(1 << 20)
            b = f2.read(1 << 20)
            if not a and not b:
                break
            if a != b:
                m = max(len(a), len(b))
                for i in range(0, m, gran):
                    x, y = a[i:i + gran], b[i:i + gran]
                    if x != y:
                        n += 1
                        if first is None:
                            j = 0
                            while j < min(len(x), len(y)) and x[j] == y[j]:
                                j += 1
                            first = off + i + j
            off += max(len(a), len(b))
    return first, n


# ---------------------------------------------------------------------------------------
# strace witness

FD_WRITE_CALLS = ("write", "pwrite64", "pwritev", "pwritev2", "writev", "ftruncate",
                  "fallocate", "sendfile", "copy_file_range")
PATH_WRITE_CALLS = ("unlink", "unlinkat", "rename", "renameat", "renameat2", "truncate")
OPEN_CALLS = ("open", "openat")
TRACE_SET = ",".join(OPEN_CALLS + FD_WRITE_CALLS + PATH_WRITE_CALLS)


def strace_argv(tracefile, argv):
    return ["strace", "-f", "-y", "-s", "16", "-e", "trace=" + TRACE_SET, "-o", tracefile] + \
        list(argv)


_LINE = re.compile(r"^(\d+)\s+(.*)$")
_RESUMED = re.compile(r"^<\.\.\. (\w+) resumed>(.*)$")
_CALL = re.compile(r"^(\w+)\((.*)\)\s+=\s+(-?\d+|\?)(.*)$")
_FDARG = re.compile(r"(-?\d+|AT_FDCWD)<([^>]*)>")
_STR = re.compile(r'"((?:[^"\\]|\\.)*)"')


def _clean(p):
    if p.endswith(" (deleted)"):
        p = p[:-len(" (deleted)")]
    return p


def _category(path, cwd):
    """Coarse name of a written non-target file: first component below cwd, else kind."""
    if path.startswith(cwd + "/"):
        rel = path[len(cwd) + 1:]
        return rel.split("/")[0] + ("/*" if "/" in rel else "")
    if path.startswith("pipe:") or path.startswith("socket:"):
        return "<pipe>"
    if path.startswith("/dev/"):
        return path
    return "<other:%s>" % os.path.dirname(path)


def parse_trace(tracefile, targets, cwd):
    """targets: {role: absolute real path}.  Returns a dict of counters and the trace lines of
    successful write-class calls on a target."""
    tpaths = {os.path.realpath(p): role for role, p in targets.items()}
    res = {"lines": 0, "calls": 0, "target_writes": [], "n_target_writes": 0,
           "target_write_failed": [], "n_target_write_failed": 0,
           "target_open_rw": 0, "target_open_ro": 0, "target_open_rw_failed": 0,
           "target_open_roles": set(), "target_open_rw_roles": set(),
           "nontarget_writes": 0, "nontarget_files": set(),
           "unparsed": 0, "pids": set()}
    pending = {}
    try:
        fh = open(tracefile, "r", errors="replace")
    except FileNotFoundError:
        res["missing"] = True
        return res
    with fh:
        for raw in fh:
            raw = raw.rstrip("\n")
            m = _LINE.match(raw)
            if not m:
                res["unparsed"] += 1
                continue
            res["lines"] += 1
            pid, rest = m.group(1), m.group(2)
            res["pids"].add(pid)
            if rest.startswith("+++") or rest.startswith("---"):
                continue
            if rest.endswith("<unfinished ...>"):
                pending[pid] = rest[:-len("<unfinished ...>")].rstrip()
                continue
            mr = _RESUMED.match(rest)
            if mr:
                rest = pending.pop(pid, mr.group(1) + "(") + mr.group(2)
            mc = _CALL.match(rest)
            if not mc:
                res["unparsed"] += 1
                continue
            name, args, ret, tail = mc.groups()
            res["calls"] += 1
            ok = ret not in ("?",) and not ret.startswith("-")
            line = "%s %s" % (pid, rest[:300])

            def hit(path):
                p = _clean(path)
                if not p.startswith("/"):
                    p = os.path.normpath(os.path.join(cwd, p))
                return tpaths.get(p) or tpaths.get(os.path.realpath(p))

            if name in OPEN_CALLS:
                strs = _STR.findall(args)
                role = None
                mt = re.match(r"^<([^>]*)>", tail)
                if ok and mt:
                    role = hit(mt.group(1))
                if role is None and strs:
                    role = hit(strs[0])
                if role is None:
                    continue
                # flags: the token after the path string
                fl = args[args.find('"' + strs[0] + '"') + len(strs[0]) + 2:] if strs else args
                wr = ("O_RDWR" in fl) or ("O_WRONLY" in fl)
                if ok:
                    res["target_open_roles"].add(role)
                    if wr:
                        res["target_open_rw"] += 1
                        res["target_open_rw_roles"].add(role)
                        if "O_TRUNC" in fl:
                            res["n_target_writes"] += 1
                            if len(res["target_writes"]) < 12:
                                res["target_writes"].append((role, line))
                    else:
                        res["target_open_ro"] += 1
                elif wr:
                    res["target_open_rw_failed"] += 1
                continue
            role = None
            if name in FD_WRITE_CALLS:
                fds = _FDARG.findall(args)
                which = 1 if name == "copy_file_range" else 0
                path = fds[which][1] if len(fds) > which else None
                if path is not None:
                    role = hit(path)
                    if role is None and ok:
                        res["nontarget_writes"] += 1
                        res["nontarget_files"].add(_category(_clean(path), cwd))
            elif name in PATH_WRITE_CALLS:
                for s in _STR.findall(args):
                    role = role or hit(s)
                if role is None and ok:
                    res["nontarget_writes"] += 1
            else:
                continue
            if role is None:
                continue
            if ok:
                res["n_target_writes"] += 1
                if len(res["target_writes"]) < 12:
                    res["target_writes"].append((role, line))
            else:
                res["n_target_write_failed"] += 1
                if len(res["target_write_failed"]) < 4:
                    res["target_write_failed"].append((role, line))
    res["pids"] = len(res["pids"])
    res["target_open_roles"] = sorted(res["target_open_roles"])
    res["target_open_rw_roles"] = sorted(res["target_open_rw_roles"])
    res["nontarget_files"] = sorted(res["nontarget_files"])
    return res


# ---------------------------------------------------------------------------------------
# crc32c (raw)

_T = []
for _i in range(256):
    _c = _i
    for _ in range(8):
        _c = (_c >> 1) ^ (0x82F63B78 if _c & 1 else 0)
    _T.append(_c)


def crc32c(crc, data):
    """crc32c_le(crc, data): raw update without initial/final inversion."""
    for b in data:
        crc = _T[(crc ^ b) & 0xFF] ^ (crc >> 8)
    return crc & 0xFFFFFFFF
