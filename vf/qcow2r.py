"""Independent reader of QCOW2 images, written from the published format description
(version 2/3 header, two-level L1/L2 cluster map, refcount table -> refcount blocks of 16-bit
counters).  Shares nothing with lib/ext2fs/qcow2.c.  Used by C19 to judge `e2image -Q`."""
import os
import struct

MAGIC = 0x514649FB              # 'Q' 'F' 'I' 0xfb
OFFSET_MASK = 0x00FFFFFFFFFFFE00
FLAG_COPIED = 1 << 63
FLAG_COMPRESSED = 1 << 62


class Qcow2Error(Exception):
    pass


class Qcow2:
    def __init__(self, path):
        self.f = open(path, "rb")
        self.fsize = os.fstat(self.f.fileno()).st_size
        h = self._pread(0, 72)
        if len(h) < 72:
            raise Qcow2Error("short header")
        (magic, self.version, bf_off, bf_size, self.cluster_bits, self.size, crypt, self.l1_size,
         self.l1_offset, self.rt_offset, self.rt_clusters, self.nb_snap, self.snap_off) = \
            struct.unpack(">IIQIIQIIQQIIQ", h)
        if magic != MAGIC:
            raise Qcow2Error("bad magic %#x" % magic)
        if self.version not in (2, 3):
            raise Qcow2Error("unsupported version %d" % self.version)
        if not 9 <= self.cluster_bits <= 21:
            raise Qcow2Error("cluster_bits %d out of range" % self.cluster_bits)
        if bf_off or bf_size:
            raise Qcow2Error("backing file present")
        if crypt:
            raise Qcow2Error("encrypted")
        self.cs = 1 << self.cluster_bits
        self.l2_entries = self.cs // 8
        self.rb_entries = self.cs // 2          # refcount_order 4: 16-bit counters
        need = (self.size + self.cs * self.l2_entries - 1) // (self.cs * self.l2_entries)
        if self.l1_size < need:
            raise Qcow2Error("l1_size %d cannot map %d bytes" % (self.l1_size, self.size))
        if self.l1_offset % self.cs or self.rt_offset % self.cs:
            raise Qcow2Error("unaligned L1 / refcount table")
        self.l1 = struct.unpack(">%dQ" % self.l1_size, self._pread(self.l1_offset, 8 * self.l1_size, True))
        self.rt = struct.unpack(">%dQ" % (self.rt_clusters * self.cs // 8),
                                self._pread(self.rt_offset, self.rt_clusters * self.cs, True))
        self._rb_cache = {}

    def close(self):
        self.f.close()

    def _pread(self, off, n, strict=False):
        b = os.pread(self.f.fileno(), n, off)
        if strict and len(b) != n:
            raise Qcow2Error("structure at %d (+%d) reaches beyond the end of the file" % (off, n))
        return b

    def l2_tables(self):
        """[(l1_index, host offset of the L2 table)] for the allocated L1 slots"""
        out = []
        for i, e in enumerate(self.l1):
            off = e & OFFSET_MASK
            if off:
                if off % self.cs or off + self.cs > self.fsize:
                    raise Qcow2Error("L1[%d] -> bad L2 offset %#x" % (i, off))
                out.append((i, off))
        return out

    def mapping(self):
        """{guest cluster index: host byte offset} for every allocated data cluster"""
        m = {}
        for i, off in self.l2_tables():
            ents = struct.unpack(">%dQ" % self.l2_entries, self._pread(off, self.cs, True))
            for j, e in enumerate(ents):
                if not e:
                    continue
                if e & FLAG_COMPRESSED:
                    raise Qcow2Error("compressed cluster")
                h = e & OFFSET_MASK
                if self.version == 3 and (e & 1) and not h:
                    continue                    # 'reads as zeros' without allocation
                g = i * self.l2_entries + j
                if h % self.cs or h + self.cs > self.fsize or h == 0:
                    raise Qcow2Error("guest cluster %d -> bad host offset %#x (file size %d)" % (g, h, self.fsize))
                if g * self.cs >= self.size:
                    raise Qcow2Error("guest cluster %d mapped beyond the virtual size" % g)
                m[g] = h
        return m

    def refcount(self, host_cluster):
        ti, bi = divmod(host_cluster, self.rb_entries)
        if ti >= len(self.rt):
            return 0
        rb = self.rt[ti] & 0xFFFFFFFFFFFFFE00
        if not rb:
            return 0
        if ti not in self._rb_cache:
            if rb % self.cs or rb + self.cs > self.fsize:
                raise Qcow2Error("refcount table[%d] -> bad block offset %#x" % (ti, rb))
            self._rb_cache[ti] = struct.unpack(">%dH" % self.rb_entries, self._pread(rb, self.cs, True))
        return self._rb_cache[ti][bi]

    def refcount_blocks(self):
        return [(i, e & 0xFFFFFFFFFFFFFE00) for i, e in enumerate(self.rt) if e & 0xFFFFFFFFFFFFFE00]

    def read_cluster(self, host_off):
        return self._pread(host_off, self.cs, True)

    def check(self, mapping=None):
        """Structural problems as [(class, detail)]: every cluster in use (header, L1, refcount
        table, refcount blocks, L2 tables, data) has refcount >= 1; no host cluster is used twice."""
        probs = []
        m = self.mapping() if mapping is None else mapping
        users = {}

        def use(off, what):
            c = off // self.cs
            if c in users:
                probs.append(("host-cluster-shared", "host cluster %d used by %s and %s" % (c, users[c], what)))
            users[c] = what
        use(0, "header")
        for k in range((8 * self.l1_size + self.cs - 1) // self.cs):
            use(self.l1_offset + k * self.cs, "L1")
        for k in range(self.rt_clusters):
            use(self.rt_offset + k * self.cs, "refcount-table")
        for i, off in self.refcount_blocks():
            use(off, "refcount-block[%d]" % i)
        for i, off in self.l2_tables():
            use(off, "L2[%d]" % i)
        for g, h in m.items():
            use(h, "data(guest %d)" % g)
        for c, what in users.items():
            if self.refcount(c) < 1:
                probs.append(("refcount-zero " + what.split("(")[0].split("[")[0],
                              "host cluster %d (%s) has refcount 0" % (c, what)))
        return probs
