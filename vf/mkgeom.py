"""Own geometry arithmetic for freshly made ext2/3/4 filesystems (used by checks/C07.py).

Nothing here runs or imports e2fsprogs.  It answers two questions from first principles
(format limits + the sizing rules documented in mke2fs(8)/mke2fs.conf(5) and in the comments
of the library's initialisation routine):

  * plan(...)   - a forward model: for a requested block count, block/cluster/inode size,
                  blocks per group, inode count and feature set, how many groups, inodes per
                  group, descriptor blocks, reserved GDT blocks result, how big the
                  bookkeeping overhead of the last group is, and whether a too-small last
                  group gets dropped.  The model is used to *choose device sizes at
                  boundaries* and to judge the "last group" rule with a tolerance band.
  * parse_mke2fs_conf(path) - the [defaults]/[fs_types] relations of a mke2fs.conf, to know
                  the base feature set / inode ratio / inode size of `-t <type>`.
"""
import re


class Refused(Exception):
    """the model predicts that this geometry cannot be created"""


def is_power_of(n, base):
    while n > 1:
        if n % base:
            return False
        n //= base
    return n == 1


def sparse_group_has_super(g):
    return g <= 1 or (g % 2 == 1 and (is_power_of(g, 3) or is_power_of(g, 5) or is_power_of(g, 7)))


def ceil_div(a, b):
    return -(-a // b)


class Plan:
    """Result of plan(); all values are what the finished filesystem is expected to have."""
    __slots__ = ("bs", "ratio", "fdb", "bpg", "cpg", "blocks_req", "blocks", "groups", "desc_size",
                 "dpb", "desc_blocks", "ipg", "itb", "inodes", "rsv_gdt", "meta_bg", "resize_inode",
                 "dropped", "rem1", "overhead1", "groups1", "bpg_adjusted", "isize")

    def as_dict(self):
        return {k: getattr(self, k) for k in self.__slots__}


def plan(blocks, bs, ratio=1, g_opt=0, feats=(), inodes=0, isize=256, rsv_param=0,
         backup_bgs=(0, 0), first_ino=11):
    """Forward model of the geometry of a new filesystem.

    blocks   requested size in blocks;  ratio  blocks per cluster (1 without bigalloc)
    g_opt    -g value (blocks per group, or clusters per group with bigalloc), 0 = default
    feats    feature names in effect (bigalloc, 64bit, resize_inode, meta_bg, sparse_super,
             sparse_super2 matter)
    inodes   requested inode count (0 = one per 4 KiB)
    rsv_param reserved GDT blocks asked for explicitly (0 = derive from the 1024x growth rule)
    backup_bgs  the (first, second) backup group request of sparse_super2 (non-zero = wanted)
    """
    feats = set(feats)
    bigalloc = "bigalloc" in feats
    p = Plan()
    p.bs, p.ratio, p.isize = bs, ratio, isize
    p.blocks_req = blocks
    p.fdb = 1 if (bs * ratio == 1024) else 0
    maxpg = 65528
    if bigalloc:
        cpg = g_opt or bs * 8
        cpg = min(cpg, maxpg)
        bpg = cpg * ratio
        if bpg >= 1 << 32:
            raise Refused("blocks per group overflow")
    else:
        bpg = g_opt or bs * 8
        bpg = min(bpg, maxpg * ratio)
        cpg = bpg
    cur = blocks & ~(ratio - 1)
    p.desc_size = 64 if "64bit" in feats else 32
    p.dpb = bs // p.desc_size
    meta_bg = "meta_bg" in feats
    resize_inode = "resize_inode" in feats
    ipb = bs // isize
    p.dropped = False
    p.rem1 = p.overhead1 = p.groups1 = None
    p.bpg_adjusted = False
    first_pass = True
    guard = 0
    while True:
        guard += 1
        if guard > 10000:
            raise Refused("model does not converge")
        if cur <= p.fdb:
            raise Refused("too small")
        groups = ceil_div(cur - p.fdb, bpg)
        if groups == 0:
            raise Refused("too small")
        desc_blocks = ceil_div(groups, p.dpb)
        per4k = 1 if bs >= 4096 else 4096 // bs
        if inodes:
            want = inodes
        elif "64bit" in feats and cur // per4k >= 1 << 32:
            want = 0xFFFFFFFF
        else:
            want = cur // per4k
        ipg = ceil_div(want, groups)
        if ipg > bs * 8:
            if not bigalloc and bpg >= 256:
                bpg -= 8
                cpg = bpg
                cur = blocks
                p.bpg_adjusted = True
                first_pass = True
                continue
            raise Refused("too many inodes")
        if ipg > 65536 - ipb:
            ipg = 65536 - ipb
        while True:
            s_ipg = ipg
            itb = ceil_div(s_ipg * isize, bs)
            s_ipg = itb * bs // isize
            if s_ipg < 8:
                s_ipg = 8
            s_ipg &= ~7
            itb = ceil_div(s_ipg * isize, bs)
            if s_ipg * groups > 0xFFFFFFFF:
                ipg -= 1
                continue
            if s_ipg * groups < first_ino + 1:
                ipg += 8
                continue
            break
        if resize_inode:
            max_blocks = 0xFFFFFFFF
            if cur < max_blocks // 1024:
                max_blocks = cur * 1024
            rsv_groups = ceil_div(max_blocks - p.fdb, bpg)
            calc = ceil_div(rsv_groups, p.dpb) - desc_blocks
            if calc < 0 or calc > bs // 4:
                calc = bs // 4
        else:
            calc = 0
        rsv = rsv_param or calc
        if rsv > bs // 4:
            raise Refused("too many reserved GDT blocks")
        if rsv + desc_blocks > bpg * 3 // 4:
            meta_bg = True
            resize_inode = False
            rsv = rsv_param or 0
        overhead = 3 + itb + rsv + (1 if meta_bg else desc_blocks)
        if overhead > bpg:
            raise Refused("too many inodes (overhead exceeds a group)")
        overhead = 2 + itb
        last = groups - 1
        if "sparse_super2" in feats:
            has_bg = bool(backup_bgs[0]) if groups == 2 else bool(backup_bgs[1])
        elif last == 0 or "sparse_super" not in feats:
            has_bg = True
        else:
            has_bg = sparse_group_has_super(last)
        if has_bg:
            overhead += 1 + desc_blocks + rsv
        rem = (cur - p.fdb) % bpg
        if first_pass:
            # values of the first pass with the final blocks-per-group: the ones that decide
            # whether a short last group is kept
            p.rem1, p.overhead1, p.groups1 = rem, overhead, groups
            first_pass = False
        if groups == 1 and rem and rem < overhead:
            raise Refused("too small")
        if rem and rem < overhead + 50:
            cur -= rem
            p.dropped = True
            continue
        break
    p.bpg, p.cpg, p.blocks, p.groups = bpg, cpg, cur, groups
    p.desc_blocks, p.ipg, p.itb, p.inodes = desc_blocks, s_ipg, itb, s_ipg * groups
    p.rsv_gdt, p.meta_bg, p.resize_inode = rsv, meta_bg, resize_inode
    return p


def last_group_overhead(groups, bs, ratio, g_opt, feats, inodes, isize, rsv_param=0, backup_bgs=(0, 0)):
    """Bookkeeping overhead the *last* of `groups` groups would need (first-pass value), or
    None when the model refuses.  Used to aim remainders at 1..overhead+50."""
    fdb = 1 if bs * ratio == 1024 else 0
    bpg = (min(g_opt or bs * 8, 65528)) * ratio
    blocks = fdb + (groups - 1) * bpg + ratio
    try:
        pl = plan(blocks, bs, ratio, g_opt, feats, inodes(blocks) if callable(inodes) else inodes,
                  isize, rsv_param, backup_bgs)
    except Refused:
        return None
    if pl.bpg_adjusted:
        return None
    return pl.overhead1


# ---------------------------------------------------------------------------------------------
# mke2fs.conf

def parse_mke2fs_conf(path):
    """Returns {"defaults": {k: v}, "fs_types": {name: {k: v}}} (strings)."""
    out = {"defaults": {}, "fs_types": {}}
    section = None
    sub = None
    with open(path, "r", errors="replace") as f:
        for line in f:
            line = line.strip()
            if not line or line[0] in "#;":
                continue
            m = re.match(r"^\[(\w+)\]$", line)
            if m:
                section, sub = m.group(1), None
                continue
            if line == "}":
                sub = None
                continue
            m = re.match(r"^([\w.+-]+)\s*=\s*\{$", line)
            if m and section == "fs_types":
                sub = m.group(1)
                out["fs_types"].setdefault(sub, {})
                continue
            m = re.match(r"^([\w.+-]+)\s*=\s*(.*)$", line)
            if not m:
                continue
            k, v = m.group(1), m.group(2).strip().strip('"')
            if section == "defaults":
                out["defaults"][k] = v
            elif section == "fs_types" and sub:
                out["fs_types"][sub][k] = v
    return out


def size_type(blocks, bs):
    meg = (1024 * 1024) // bs
    if blocks < 3 * meg:
        return "floppy"
    if blocks < 512 * meg:
        return "small"
    if blocks < 4 * 1024 * 1024 * meg:
        return "default"
    if blocks < 16 * 1024 * 1024 * meg:
        return "big"
    return "huge"


def profile_types(conf, fstype, blocks, bs):
    """list of [fs_types] subsections that apply, in lookup order"""
    out = [fstype]
    st = size_type(blocks, bs)
    if st in conf["fs_types"]:
        out.append(st)
    return out


def profile_get(conf, types, key, default=None):
    """the last listed type wins, then [defaults]"""
    for t in reversed(types):
        v = conf["fs_types"].get(t, {}).get(key)
        if v is not None:
            return v
    return conf["defaults"].get(key, default)


def edit_features(featset, spec):
    """apply a comma separated feature edit list ('x', '^x', '-x', 'none') to a set"""
    for tok in re.split(r"[,:\s]+", spec):
        if not tok:
            continue
        if tok in ("none", "clear"):
            featset.clear()
            continue
        neg = tok[0] in "^-"
        name = tok.lstrip("^-+").lower()
        name = {"extents": "extent", "gdt_csum": "uninit_bg", "needs-recovery": "needs_recovery",
                "huge-file": "huge_file"}.get(name, name)
        if neg:
            featset.discard(name)
        else:
            featset.add(name)
    return featset


def base_features(conf, fstype, blocks, bs):
    """feature set of `-t fstype` before any -O edit: base_features + every applicable type's
    `features` relation"""
    types = profile_types(conf, fstype, blocks, bs)
    fs = set()
    edit_features(fs, profile_get(conf, types, "base_features",
                                  "sparse_super,large_file,filetype,resize_inode,dir_index"))
    for t in types:
        v = conf["fs_types"].get(t, {}).get("features")
        if v:
            edit_features(fs, v)
    return fs
