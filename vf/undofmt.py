"""Independent reader of the e2undo file layout (E2UNDO02) - shares no code with libext2fs.

Layout (all little endian), file cut into blocks of hdr.block_size (B) bytes:
  block 0            header, 512 bytes used:  magic[8] num_keys u64, super_offset u64,
                     key_offset u64, block_size u32, fs_block_size u32, sb_crc u32, state u32,
                     f_compat u32, f_incompat u32, f_rocompat u32, pad u32, fs_offset u64,
                     padding[436], header_crc u32 = crc32c(~0, first 508 bytes)
  block super_offset the recorded superblock (1024 bytes) with s_magic inverted;
                     sb_crc = crc32c(~0, superblock with the magic put right)
  block key_offset   key block: magic 0xCADECADE u32, crc u32 (crc32c(~0, whole block with
                     this field zero)), reserved u64, then B/16-1 keys {fsblk u64, crc u32,
                     size u32}; each key's data follows in ceil(size/B) blocks, in key order;
                     after the last key of a full key block comes the next key block.
  key.fsblk is in units of hdr.fs_block_size, relative to hdr.fs_offset (if f_compat & 1).
All crcs are ext2fs_crc32c_le(~0, ...): reflected CRC32C, initial value ~0, no final xor.
"""
import struct

MAGIC = b"E2UNDO02"
KEYBLOCK_MAGIC = 0xCADECADE
STATE_FINISHED = 1
COMPAT_FS_OFFSET = 1
MAX_EXTENT_BLOCKS = 512
HDR_SIZE = 512
SB_SIZE = 1024


def _table():
    t = []
    for i in range(256):
        c = i
        for _ in range(8):
            c = (c >> 1) ^ 0x82F63B78 if c & 1 else c >> 1
        t.append(c)
    return t


_T = _table()


def crc32c(data, crc=0xFFFFFFFF):
    """Raw CRC32C update (Castagnoli, reflected), no final inversion."""
    t = _T
    for b in data:
        crc = t[(crc ^ b) & 0xFF] ^ (crc >> 8)
    return crc


class UndoError(Exception):
    pass


class Undo:
    """Parsed undo file.  `regions` is a list of (start, end, kind) byte ranges covering the
    whole file; kinds: hdr (checksummed header bytes incl. the crc field), hdr_slack, sb
    (superblock copy, compared with the device and covered by sb_crc), sb_slack, key (key
    block, checksummed as a whole), data (covered by the key's crc), data_slack, slack."""

    def __init__(self, raw, verify_data=True):
        self.raw = raw
        if len(raw) < HDR_SIZE or raw[:8] != MAGIC:
            raise UndoError("not an undo file")
        (self.num_keys, self.super_offset, self.key_offset, self.block_size,
         self.fs_block_size, self.sb_crc, self.state, self.f_compat, self.f_incompat,
         self.f_rocompat, _pad, self.fs_offset) = struct.unpack_from("<QQQIIIIIIIIQ", raw, 8)
        self.header_crc = struct.unpack_from("<I", raw, 508)[0]
        self.header_crc_ok = crc32c(raw[:508]) == self.header_crc
        self.finished = bool(self.state & STATE_FINISHED)
        B = self.block_size
        self.keys = []          # dicts: fsblk, crc, size, file_off, keyblock, crc_ok
        self.keyblocks = []     # dicts: file_off, magic_ok, crc_ok, nkeys
        self.regions = []
        self.sb = None
        self.sb_crc_ok = None
        self.problems = []
        if not self.header_crc_ok:
            self.problems.append("header crc")
        if B < 1024 or B > 1048576 or self.fs_block_size == 0:
            self.problems.append("block size")
            self.regions = [(0, 508, "hdr"), (508, 512, "hdr"), (512, len(raw), "slack")]
            return
        reg = [(0, HDR_SIZE, "hdr"), (HDR_SIZE, B, "hdr_slack")]
        so = self.super_offset * B
        sbraw = bytearray(raw[so:so + SB_SIZE])
        if len(sbraw) == SB_SIZE:
            m = struct.unpack_from("<H", sbraw, 56)[0] ^ 0xFFFF
            struct.pack_into("<H", sbraw, 56, m)
            self.sb = bytes(sbraw)
            self.sb_crc_ok = crc32c(self.sb) == self.sb_crc
            if not self.sb_crc_ok:
                self.problems.append("sb crc")
            reg += [(so, so + SB_SIZE, "sb"), (so + SB_SIZE, so + B, "sb_slack")]
        else:
            self.problems.append("sb missing")
        kpb = B // 16 - 1
        lblk = self.key_offset
        i = 0
        while i < self.num_keys:
            off = lblk * B
            kb = raw[off:off + B]
            if len(kb) < B:
                self.problems.append("key block %d beyond EOF" % lblk)
                break
            magic, crc = struct.unpack_from("<II", kb, 0)
            ok = crc32c(kb[:4] + b"\0\0\0\0" + kb[8:]) == crc
            n = min(kpb, self.num_keys - i)
            self.keyblocks.append({"file_off": off, "magic_ok": magic == KEYBLOCK_MAGIC,
                                   "crc_ok": ok, "nkeys": n})
            if magic != KEYBLOCK_MAGIC:
                self.problems.append("key magic")
            if not ok:
                self.problems.append("key crc")
            reg.append((off, off + B, "key"))
            lblk += 1
            for j in range(n):
                fsblk, kcrc, size = struct.unpack_from("<QII", kb, 16 + 16 * j)
                foff = lblk * B
                nb = (size + B - 1) // B
                k = {"fsblk": fsblk, "crc": kcrc, "size": size, "file_off": foff,
                     "keyblock": len(self.keyblocks) - 1, "crc_ok": None}
                if size > MAX_EXTENT_BLOCKS * B:
                    self.problems.append("key too long")
                elif foff + size > len(raw):
                    self.problems.append("data beyond EOF")
                    k["crc_ok"] = False
                elif verify_data:
                    k["crc_ok"] = crc32c(raw[foff:foff + size]) == kcrc
                    if not k["crc_ok"]:
                        self.problems.append("data crc")
                self.keys.append(k)
                reg.append((foff, foff + size, "data"))
                if size % B:
                    reg.append((foff + size, foff + nb * B, "data_slack"))
                lblk += nb
            i += n
        # fill the gaps with slack, clip to the file, drop empties
        reg = sorted((max(0, a), min(len(raw), b), k) for a, b, k in reg)
        out = []
        pos = 0
        for a, b, k in reg:
            if b <= a:
                continue
            if a > pos:
                out.append((pos, a, "slack"))
            out.append((a, b, k))
            pos = max(pos, b)
        if pos < len(raw):
            out.append((pos, len(raw), "slack"))
        self.regions = out

    # -- helpers ----------------------------------------------------------------
    def dev_offset(self):
        return self.fs_offset if self.f_compat & COMPAT_FS_OFFSET else 0

    def recorded(self, dev_offset=None):
        """[(device byte offset, size, file offset)] for every key."""
        base = self.dev_offset() if dev_offset is None else dev_offset
        return [(base + k["fsblk"] * self.fs_block_size, k["size"], k["file_off"])
                for k in self.keys]

    def region_at(self, byte):
        for a, b, k in self.regions:
            if a <= byte < b:
                return k
        return "beyond"

    def consistent(self):
        return not self.problems

    def summary(self):
        return {"block_size": self.block_size, "fs_block_size": self.fs_block_size,
                "num_keys": self.num_keys, "key_blocks": len(self.keyblocks),
                "finished": self.finished, "fs_offset": self.dev_offset(),
                "data_bytes": sum(k["size"] for k in self.keys), "problems": self.problems[:4]}


# kinds whose damage e2undo must refuse (they are inside a checksummed / compared range)
MUST_REFUSE = ("hdr", "sb", "key", "data")


def parse_file(path, verify_data=True):
    with open(path, "rb") as f:
        return Undo(f.read(), verify_data=verify_data)
