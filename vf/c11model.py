"""C11 helper: complete superblock field table + bit-level diff, the catalogue of tune2fs
requests ("atoms") with, for each, (a) what "the requested setting is in effect" means in
terms of the independently parsed superblock and (b) which other superblock fields the
request is documented (man page / misc/tune2fs.c) to touch.  Nothing here runs or imports
e2fsprogs code; the superblock is parsed from raw bytes.

An op is {"label": str, "atoms": [atom, ...]}; op_argv(op) builds the tune2fs arguments.
An atom is a JSON-able dict {"k": kind, ...}.
"""
import struct

from .pyext4 import crc
from .pyext4 import image as I

# ---------------------------------------------------------------------------------------
# superblock: every byte of the 1024 is covered by exactly one named field

_F = [
    ("s_inodes_count", "<I"), ("s_blocks_count_lo", "<I"), ("s_r_blocks_count_lo", "<I"),
    ("s_free_blocks_count_lo", "<I"), ("s_free_inodes_count", "<I"), ("s_first_data_block", "<I"),
    ("s_log_block_size", "<I"), ("s_log_cluster_size", "<I"), ("s_blocks_per_group", "<I"),
    ("s_clusters_per_group", "<I"), ("s_inodes_per_group", "<I"), ("s_mtime", "<I"),
    ("s_wtime", "<I"), ("s_mnt_count", "<H"), ("s_max_mnt_count", "<h"), ("s_magic", "<H"),
    ("s_state", "<H"), ("s_errors", "<H"), ("s_minor_rev_level", "<H"), ("s_lastcheck", "<I"),
    ("s_checkinterval", "<I"), ("s_creator_os", "<I"), ("s_rev_level", "<I"),
    ("s_def_resuid", "<H"), ("s_def_resgid", "<H"), ("s_first_ino", "<I"), ("s_inode_size", "<H"),
    ("s_block_group_nr", "<H"), ("s_feature_compat", "<I"), ("s_feature_incompat", "<I"),
    ("s_feature_ro_compat", "<I"), ("s_uuid", "16s"), ("s_volume_name", "16s"),
    ("s_last_mounted", "64s"), ("s_algorithm_usage_bitmap", "<I"), ("s_prealloc_blocks", "B"),
    ("s_prealloc_dir_blocks", "B"), ("s_reserved_gdt_blocks", "<H"), ("s_journal_uuid", "16s"),
    ("s_journal_inum", "<I"), ("s_journal_dev", "<I"), ("s_last_orphan", "<I"),
    ("s_hash_seed", "16s"), ("s_def_hash_version", "B"), ("s_jnl_backup_type", "B"),
    ("s_desc_size", "<H"), ("s_default_mount_opts", "<I"), ("s_first_meta_bg", "<I"),
    ("s_mkfs_time", "<I"), ("s_jnl_blocks", "68s"), ("s_blocks_count_hi", "<I"),
    ("s_r_blocks_count_hi", "<I"), ("s_free_blocks_hi", "<I"), ("s_min_extra_isize", "<H"),
    ("s_want_extra_isize", "<H"), ("s_flags", "<I"), ("s_raid_stride", "<H"),
    ("s_mmp_update_interval", "<H"), ("s_mmp_block", "<Q"), ("s_raid_stripe_width", "<I"),
    ("s_log_groups_per_flex", "B"), ("s_checksum_type", "B"), ("s_encryption_level", "B"),
    ("s_reserved_pad", "B"), ("s_kbytes_written", "<Q"), ("s_snapshot_inum", "<I"),
    ("s_snapshot_id", "<I"), ("s_snapshot_r_blocks_count", "<Q"), ("s_snapshot_list", "<I"),
    ("s_error_count", "<I"), ("s_first_error_time", "<I"), ("s_first_error_ino", "<I"),
    ("s_first_error_block", "<Q"), ("s_first_error_func", "32s"), ("s_first_error_line", "<I"),
    ("s_last_error_time", "<I"), ("s_last_error_ino", "<I"), ("s_last_error_line", "<I"),
    ("s_last_error_block", "<Q"), ("s_last_error_func", "32s"), ("s_mount_opts", "64s"),
    ("s_usr_quota_inum", "<I"), ("s_grp_quota_inum", "<I"), ("s_overhead_clusters", "<I"),
    ("s_backup_bgs", "8s"), ("s_encrypt_algos", "4s"), ("s_encrypt_pw_salt", "16s"),
    ("s_lpf_ino", "<I"), ("s_prj_quota_inum", "<I"), ("s_checksum_seed", "<I"),
    ("s_wtime_hi", "B"), ("s_mtime_hi", "B"), ("s_mkfs_time_hi", "B"), ("s_lastcheck_hi", "B"),
    ("s_first_error_time_hi", "B"), ("s_last_error_time_hi", "B"), ("s_first_error_errcode", "B"),
    ("s_last_error_errcode", "B"), ("s_encoding", "<H"), ("s_encoding_flags", "<H"),
    ("s_orphan_file_inum", "<I"), ("s_reserved", "376s"), ("s_checksum", "<I"),
]


def _layout():
    out = []
    off = 0
    for n, f in _F:
        out.append((n, off, f))
        off += struct.calcsize(f)
    assert off == 1024, off
    return out


SB_LAYOUT = _layout()
assert dict((n, o) for n, o, _ in SB_LAYOUT)["s_checksum"] == 1020
assert dict((n, o) for n, o, _ in SB_LAYOUT)["s_mount_opts"] == 0x200
assert dict((n, o) for n, o, _ in SB_LAYOUT)["s_orphan_file_inum"] == 0x280

MNTOPTS = {"debug": 0x1, "bsdgroups": 0x2, "user_xattr": 0x4, "acl": 0x8, "uid16": 0x10,
           "journal_data": 0x20, "journal_data_ordered": 0x40, "journal_data_writeback": 0x60,
           "nobarrier": 0x100, "block_validity": 0x200, "discard": 0x400, "nodelalloc": 0x800}
JMODE = 0x60
STATE_BITS = {"valid": 1, "error": 2, "orphan": 4}

# tune2fs spells one feature differently from the table of the independent reader
FEAT_ARG = {"read_only": "read-only"}


def parse_sb(raw):
    """raw 1024 bytes -> dict of every field (ints / bytes)."""
    d = {}
    for n, o, f in SB_LAYOUT:
        d[n] = struct.unpack_from(f, raw, o)[0]
    return d


def read_sb(path):
    with open(path, "rb") as f:
        f.seek(1024)
        raw = f.read(1024)
    if len(raw) < 1024:
        raise I.FormatError("short superblock")
    d = parse_sb(raw)
    if d["s_magic"] != 0xEF53:
        raise I.FormatError("bad superblock magic")
    return d


def has(sb, feat):
    if feat in I.COMPAT:
        return bool(sb["s_feature_compat"] & I.COMPAT[feat])
    if feat in I.INCOMPAT:
        return bool(sb["s_feature_incompat"] & I.INCOMPAT[feat])
    return bool(sb["s_feature_ro_compat"] & I.RO_COMPAT[feat])


def features(sb):
    return sorted(n for tbl in (I.COMPAT, I.INCOMPAT, I.RO_COMPAT) for n in tbl if has(sb, n))


def _bits(word, table, prefix, wordname):
    out = {}
    known = 0
    for n, b in table.items():
        if bin(b).count("1") != 1:
            continue
        known |= b
        out["%s:%s" % (prefix, n)] = bool(word & b)
    for i in range(32):
        if (1 << i) & ~known:
            out["%s:%s-bit%d" % (prefix, wordname, i)] = bool(word & (1 << i))
    return out


def flat(sb):
    """field dict -> comparison view: feature/mount-option/state words split into named
    bits, 64-bit counters joined."""
    v = {}
    hi64 = has(sb, "64bit")
    for n, _o, _f in SB_LAYOUT:
        v[n] = sb[n]
    for n in ("s_feature_compat", "s_feature_incompat", "s_feature_ro_compat",
              "s_default_mount_opts", "s_state", "s_blocks_count_lo", "s_r_blocks_count_lo",
              "s_free_blocks_count_lo"):
        del v[n]
    v.update(_bits(sb["s_feature_compat"], I.COMPAT, "feature", "compat"))
    v.update(_bits(sb["s_feature_incompat"], I.INCOMPAT, "feature", "incompat"))
    v.update(_bits(sb["s_feature_ro_compat"], I.RO_COMPAT, "feature", "ro_compat"))
    mo = {k: b for k, b in MNTOPTS.items() if bin(b).count("1") == 1}
    v.update(_bits(sb["s_default_mount_opts"], mo, "mntopt", "defm"))
    v.update(_bits(sb["s_state"], STATE_BITS, "state", "state"))
    v["blocks_count"] = sb["s_blocks_count_lo"]
    v["r_blocks_count"] = sb["s_r_blocks_count_lo"]
    v["free_blocks_count"] = sb["s_free_blocks_count_lo"]
    if hi64:
        # the high halves are part of the counters (otherwise they stay fields of their own)
        for lo, hi in (("blocks_count", "s_blocks_count_hi"), ("r_blocks_count", "s_r_blocks_count_hi"),
                       ("free_blocks_count", "s_free_blocks_hi")):
            v[lo] |= sb[hi] << 32
            del v[hi]
    return v


def sb_diff(before, after):
    """{field: (before, after)} over the comparison view."""
    a, b = flat(before), flat(after)
    out = {}
    for k in sorted(set(a) | set(b)):
        if a.get(k) != b.get(k):
            out[k] = (a.get(k), b.get(k))
    return out


# fields every writing tune2fs run may touch (ext2fs_flush): write time, lifetime kbytes,
# the superblock's own checksum
GLOBAL_ALLOWED = {"s_wtime", "s_wtime_hi", "s_kbytes_written", "s_checksum"}

STRUCTURAL_FIELDS = ("feature:", "s_uuid", "s_inode_size")


def is_structural_change(diff):
    return any(k.startswith(STRUCTURAL_FIELDS) for k in diff)


# ---------------------------------------------------------------------------------------
# atoms

def atom_label(a):
    k = a["k"]
    if k == "feat":
        return "-O %s%s" % ("" if a["on"] else "^", FEAT_ARG.get(a["f"], a["f"]))
    if k == "quota":
        return "-Q %s%s" % ("" if a["on"] else "^", a["t"])
    if k == "uuid":
        return "-U %s" % (a["mode"] if a["mode"] != "fixed" else "<uuid>")
    if k == "isize":
        return "-I %d" % a["n"]
    if k == "jsize":
        return "-J size"
    if k == "ext":
        return "-E %s" % a["o"]
    if k == "mntopt":
        return "-o %s%s" % ("" if a["on"] else "^", a["o"])
    return "-%s" % k      # single-letter options: e c C i L M m r g u T


def op_label(atoms):
    feats = [a for a in atoms if a["k"] == "feat"]
    rest = [a for a in atoms if a["k"] != "feat"]
    parts = []
    if feats:
        parts.append("-O " + ",".join(("" if a["on"] else "^") + FEAT_ARG.get(a["f"], a["f"])
                                      for a in feats))
    qs = [a for a in rest if a["k"] == "quota"]
    if qs:
        parts.append("-Q " + ",".join(("" if a["on"] else "^") + a["t"] for a in qs))
    es = [a for a in rest if a["k"] == "ext"]
    if es:
        parts.append("-E " + ",".join(a["o"] for a in es))
    for a in rest:
        if a["k"] not in ("quota", "ext"):
            parts.append(atom_label(a))
    return " ".join(parts)


def op_argv(atoms):
    """tune2fs arguments (without program and device).  -O / -Q / -E / -o may be given
    only once, so their atoms are merged."""
    argv = []
    feats = [a for a in atoms if a["k"] == "feat"]
    if feats:
        argv += ["-O", ",".join(("" if a["on"] else "^") + FEAT_ARG.get(a["f"], a["f"]) for a in feats)]
    qs = [a for a in atoms if a["k"] == "quota"]
    if qs:
        argv += ["-Q", ",".join(("" if a["on"] else "^") + a["t"] for a in qs)]
    es = [a for a in atoms if a["k"] == "ext"]
    if es:
        argv += ["-E", ",".join(a["o"] + ("=" + str(a["v"]) if a.get("v") is not None else "")
                                for a in es)]
        if any(a["o"] == "clear_mmp" for a in es):
            argv.insert(0, "-f")      # documented: clear_mmp "Needs '-f'"
    mo = [a for a in atoms if a["k"] == "mntopt"]
    if mo:
        argv += ["-o", ",".join(("" if a["on"] else "^") + a["o"] for a in mo)]
    for a in atoms:
        k = a["k"]
        if k in ("feat", "quota", "ext", "mntopt"):
            continue
        if k == "uuid":
            argv += ["-U", a["v"] if a["mode"] == "fixed" else a["mode"]]
        elif k == "isize":
            argv += ["-I", str(a["n"])]
        elif k == "jsize":
            argv += ["-J", "size=%d" % a["mb"]]
        else:
            argv += ["-" + k, str(a["v"])]
    return argv


QUOTA_FIELD = {"usrquota": "s_usr_quota_inum", "grpquota": "s_grp_quota_inum",
               "prjquota": "s_prj_quota_inum"}
UUID_NULL = bytes(16)


def _uuid_bytes(s):
    return bytes.fromhex(s.replace("-", ""))


def _cstr(s, n):
    b = s.encode()[:n]
    return b + bytes(n - len(b))


def judge_atoms(atoms, B, A, img_after=None):
    """B, A: superblock field dicts before/after an ACCEPTED run.
    Returns (not_in_effect: [(atom_label, explanation)], allowed: set of comparison-view
    field names the atoms are documented to touch)."""
    bad = []
    allowed = set()

    def need(a, cond, why):
        if not cond:
            bad.append((atom_label(a), why))

    for a in atoms:
        k = a["k"]
        if k == "feat":
            f, on = a["f"], a["on"]
            allowed.add("feature:" + f)
            if f == "uninit_bg" and on and (has(A, "metadata_csum")):
                # metadata_csum supersedes uninit_bg (ext4(5); tune2fs: "Do not enable
                # uninit_bg when metadata_csum enabled"): descriptors are checksummed
                # already, the bit stays clear
                pass
            elif f == "64bit":
                pass       # never toggled by tune2fs itself (resize2fs -b/-s does it)
            else:
                need(a, has(A, f) == on, "feature %s is %s after the run" %
                     (f, "set" if has(A, f) else "clear"))
            if f == "metadata_csum":
                allowed.add("s_checksum_type")
                allowed.add("feature:uninit_bg")        # superseded / restored
                if on:
                    need(a, not has(A, "uninit_bg"), "uninit_bg still set next to metadata_csum")
                    need(a, A["s_checksum_type"] == 1, "s_checksum_type %d" % A["s_checksum_type"])
                else:
                    allowed.update(("feature:metadata_csum_seed", "s_checksum_seed"))
                    need(a, not has(A, "metadata_csum_seed"), "metadata_csum_seed left set")
            elif f == "has_journal":
                allowed.update(("s_journal_inum", "s_jnl_blocks", "free_blocks_count",
                                "s_overhead_clusters"))
                if on:
                    allowed.update(("s_jnl_backup_type", "s_journal_uuid", "s_journal_dev"))
                    need(a, A["s_journal_inum"] != 0, "s_journal_inum is 0")
                else:
                    need(a, A["s_journal_inum"] == 0, "s_journal_inum still %d" % A["s_journal_inum"])
                    need(a, not any(A["s_jnl_blocks"]), "s_jnl_blocks backup not cleared")
                    need(a, not has(A, "needs_recovery"), "needs_recovery left set")
            elif f == "quota":
                allowed.update(("s_usr_quota_inum", "s_grp_quota_inum", "free_blocks_count"))
                if on:
                    # "Enable usr/grp quota by default" - when the feature is switched on
                    need(a, has(B, "quota") or (A["s_usr_quota_inum"] and A["s_grp_quota_inum"]),
                         "user/group quota inode not recorded")
                else:
                    allowed.update(("s_prj_quota_inum", "feature:project", "s_free_inodes_count"))
                    need(a, not (A["s_usr_quota_inum"] or A["s_grp_quota_inum"] or
                                 A["s_prj_quota_inum"]), "a quota inode is still recorded")
            elif f == "project":
                allowed.update(("s_prj_quota_inum", "feature:quota", "free_blocks_count",
                                "s_free_inodes_count"))
                if on:
                    need(a, A["s_prj_quota_inum"] != 0, "s_prj_quota_inum is 0")
                else:
                    need(a, A["s_prj_quota_inum"] == 0, "s_prj_quota_inum still set")
            elif f == "dir_index" and on:
                if B["s_def_hash_version"] == 0:
                    allowed.add("s_def_hash_version")
                if B["s_hash_seed"] == UUID_NULL:
                    allowed.add("s_hash_seed")
            elif f == "metadata_csum_seed":
                allowed.add("s_checksum_seed")
            elif f == "mmp":
                allowed.update(("s_mmp_block", "s_mmp_update_interval", "free_blocks_count"))
                if on:
                    need(a, A["s_mmp_block"] != 0, "s_mmp_block is 0")
                else:
                    need(a, A["s_mmp_block"] == 0 and A["s_mmp_update_interval"] == 0,
                         "MMP block / interval left behind")
            elif f == "orphan_file":
                allowed.update(("s_orphan_file_inum", "free_blocks_count", "s_free_inodes_count"))
                if on:
                    need(a, A["s_orphan_file_inum"] != 0, "s_orphan_file_inum is 0")
                else:
                    allowed.add("feature:orphan_present")
                    need(a, A["s_orphan_file_inum"] == 0, "s_orphan_file_inum still set")
        elif k == "quota":
            fld = QUOTA_FIELD[a["t"]]
            allowed.update((fld, "feature:quota", "free_blocks_count"))
            if a["t"] == "prjquota":
                allowed.update(("feature:project", "s_free_inodes_count"))
            if a["on"]:
                need(a, A[fld] != 0, "%s is 0" % fld)
                need(a, has(A, "quota"), "quota feature not set")
                if a["t"] == "prjquota":
                    need(a, has(A, "project"), "project feature not set")
            else:
                need(a, A[fld] == 0, "%s still %d" % (fld, A[fld]))
                if a["t"] == "prjquota":
                    need(a, not has(A, "project"), "project feature still set")
        elif k == "uuid":
            allowed.add("s_uuid")
            u = A["s_uuid"]
            if a["mode"] == "fixed":
                need(a, u == _uuid_bytes(a["v"]), "s_uuid is %s" % u.hex())
            elif a["mode"] == "clear":
                need(a, u == UUID_NULL, "s_uuid is %s" % u.hex())
            elif a["mode"] == "time":
                need(a, u != B["s_uuid"] and (u[6] >> 4) == 1, "s_uuid is %s" % u.hex())
            else:
                need(a, u != B["s_uuid"] and (u[6] >> 4) == 4, "s_uuid is %s" % u.hex())
        elif k == "isize":
            # resize_inode(): inode tables grow into the following blocks; summary
            # counters are recomputed from the bitmaps
            allowed.update(("s_inode_size", "free_blocks_count", "s_free_inodes_count",
                            "s_checksum_type"))
            need(a, A["s_inode_size"] == a["n"], "s_inode_size is %d" % A["s_inode_size"])
        elif k == "jsize":
            if img_after is not None and has(A, "has_journal") and not has(B, "has_journal") \
                    and A["s_journal_inum"]:
                sz = img_after.inode(A["s_journal_inum"]).size
                need(a, sz == a["mb"] << 20, "journal inode size is %d" % sz)
        elif k == "e":
            allowed.add("s_errors")
            want = {"continue": 1, "remount-ro": 2, "panic": 3}[a["v"]]
            need(a, A["s_errors"] == want, "s_errors is %d" % A["s_errors"])
        elif k == "c":
            allowed.add("s_max_mnt_count")
            want = a["v"] if a["v"] != 0 else -1
            need(a, A["s_max_mnt_count"] == want, "s_max_mnt_count is %d" % A["s_max_mnt_count"])
        elif k == "C":
            allowed.add("s_mnt_count")
            need(a, A["s_mnt_count"] == a["v"], "s_mnt_count is %d" % A["s_mnt_count"])
        elif k == "i":
            allowed.add("s_checkinterval")
            v = str(a["v"])
            mult = {"d": 86400, "w": 7 * 86400, "m": 30 * 86400, "s": 1}
            want = int(v[:-1]) * mult[v[-1]] if v[-1] in mult else int(v) * 86400
            need(a, A["s_checkinterval"] == want, "s_checkinterval is %d" % A["s_checkinterval"])
        elif k == "L":
            allowed.add("s_volume_name")
            need(a, A["s_volume_name"] == _cstr(a["v"], 16), "label is %r" % A["s_volume_name"])
        elif k == "M":
            allowed.add("s_last_mounted")
            need(a, A["s_last_mounted"] == _cstr(a["v"], 64), "s_last_mounted is %r" %
                 A["s_last_mounted"][:24])
        elif k == "m":
            allowed.update(("r_blocks_count",))
            fb = flat(B)
            want = int(float(a["v"]) * fb["blocks_count"] / 100.0)
            need(a, flat(A)["r_blocks_count"] == want, "reserved blocks %d, want %d" %
                 (flat(A)["r_blocks_count"], want))
        elif k == "r":
            allowed.update(("r_blocks_count",))
            need(a, flat(A)["r_blocks_count"] == a["v"], "reserved blocks %d" %
                 flat(A)["r_blocks_count"])
        elif k == "g":
            allowed.add("s_def_resgid")
            need(a, A["s_def_resgid"] == a["v"], "s_def_resgid is %d" % A["s_def_resgid"])
        elif k == "u":
            allowed.add("s_def_resuid")
            need(a, A["s_def_resuid"] == a["v"], "s_def_resuid is %d" % A["s_def_resuid"])
        elif k == "T":
            allowed.update(("s_lastcheck", "s_lastcheck_hi"))
            need(a, A["s_lastcheck"] == a["ts"], "s_lastcheck is %d" % A["s_lastcheck"])
        elif k == "ext":
            o, v = a["o"], a.get("v")
            if o == "mount_opts":
                allowed.add("s_mount_opts")
                need(a, A["s_mount_opts"] == _cstr(v, 64), "s_mount_opts is %r" % A["s_mount_opts"][:24])
            elif o == "stride":
                allowed.add("s_raid_stride")
                need(a, A["s_raid_stride"] == v, "s_raid_stride is %d" % A["s_raid_stride"])
            elif o == "stripe_width":
                allowed.add("s_raid_stripe_width")
                need(a, A["s_raid_stripe_width"] == v, "s_raid_stripe_width is %d" %
                     A["s_raid_stripe_width"])
            elif o == "hash_alg":
                allowed.add("s_def_hash_version")
                want = {"legacy": 0, "half_md4": 1, "tea": 2}[v]
                need(a, A["s_def_hash_version"] == want, "s_def_hash_version is %d" %
                     A["s_def_hash_version"])
            elif o == "force_fsck":
                allowed.add("state:error")
                need(a, A["s_state"] & 2, "error flag not set")
            elif o == "mmp_update_interval":
                allowed.add("s_mmp_update_interval")
                need(a, A["s_mmp_update_interval"] == (v or 5), "s_mmp_update_interval is %d" %
                     A["s_mmp_update_interval"])
            elif o == "clear_mmp":
                pass
        elif k == "mntopt":
            bit = MNTOPTS[a["o"]]
            if bit & JMODE:
                # the three journalling modes share one 2-bit field
                allowed.update(("mntopt:journal_data", "mntopt:journal_data_ordered"))
                want = (bit if a["on"] else 0)
                need(a, (A["s_default_mount_opts"] & JMODE) == want, "journal mode bits %#x" %
                     (A["s_default_mount_opts"] & JMODE))
            else:
                allowed.add("mntopt:" + a["o"])
                need(a, bool(A["s_default_mount_opts"] & bit) == a["on"], "bit is %s" %
                     bool(A["s_default_mount_opts"] & bit))
    return bad, allowed


def csum_mode(sb):
    if has(sb, "metadata_csum"):
        return "csum"
    if has(sb, "uninit_bg"):
        return "gdtcsum"
    return "nocsum"


def feature_class(sb):
    """short class of the filesystem an invocation ran on, part of e2fsck-fn keys"""
    out = [csum_mode(sb)]
    for f in ("orphan_file", "bigalloc", "inline_data", "ea_inode"):
        if has(sb, f):
            out.append(f)
    return ",".join(out)


ORPHAN_BLOCK_MAGIC = 0x0B10CA04


def orphan_file_problems(img):
    """The blocks of the orphan file end in {magic, checksum}; with metadata_csum the checksum
    is crc32c(seed, inode number, generation, physical block (64 bit), entries).  vf/pyext4/
    check.py does not look at this object type, and checksum rewrites have to cover it."""
    sb = img.sb
    if not sb.has("orphan_file") or not sb.s_orphan_file_inum:
        return []
    out = []
    try:
        ino = img.inode(sb.s_orphan_file_inum)
        mapping, _ = img.block_map(ino)
    except I.FormatError as e:
        return ["F4:orphan-file-unreadable"]
    nblocks = (ino.size + img.bs - 1) // img.bs
    for l, p, c, un in mapping:
        for k in range(c):
            if l + k >= nblocks or p + k >= img.blocks_count:
                continue
            buf = img.blk(p + k)
            magic, stored = struct.unpack_from("<II", buf, img.bs - 8)
            if magic != ORPHAN_BLOCK_MAGIC:
                out.append("F4:orphan-block-magic")
                continue
            if img.has_csum:
                v = crc.crc32c(sb.csum_seed(), struct.pack("<I", ino.ino))
                v = crc.crc32c(v, struct.pack("<I", ino.generation))
                v = crc.crc32c(v, struct.pack("<Q", p + k))
                v = crc.crc32c(v, bytes(buf[:img.bs - 8]))
                if v != stored:
                    out.append("F5:orphan-block-csum")
    return sorted(set(out))
