"""C06 case generators beyond vf/corrupt.py: corrupted journals (internal with pending
transactions, external devices), corrupted undo files, corrupted qcow2 images.

Every generator maps (class tag, case id, base file bytes) -> patches; nothing depends on
the seed of a run.  A case is a dict:
  {"cid", "cls", "base", "files": {role: [[off, bytes], ...]}, "truncate": {role: size},
   "descr": [(object kind, field, operator, detail), ...]}
roles: img (filesystem image), jnl (external journal), undo, qcow.
"""
import os
import random
import struct

from . import corrupt, undofmt
from .pyext4 import crc as PC

JBD_MAGIC = 0xC03B3998
JBD_TYPES = {1: "descriptor", 2: "commit", 3: "jsb_v1", 4: "jsb_v2", 5: "revoke"}


def rd(path, off, n):
    with open(path, "rb") as f:
        f.seek(off)
        return f.read(n)


def mut(rng, v, size, specials=(), p_special=0.4, other=None):
    mask = (1 << (8 * size)) - 1
    if specials and rng.random() < p_special:
        nv = rng.choice(specials) & mask
        if nv != v:
            return nv, "special"
    return corrupt.mutate_value(rng, v, size, other)


def apply_case(case, role, src, dst, copy=True):
    """materialise one role of a case: copy src to dst, patch, truncate"""
    if copy:
        import shutil
        shutil.copyfile(src, dst)
    pp = [(o, b if isinstance(b, (bytes, bytearray)) else bytes.fromhex(b))
          for o, b in case["files"].get(role, [])]
    if pp:
        corrupt.apply_patches(dst, pp)
    t = case.get("truncate", {}).get(role)
    if t is not None:
        with open(dst, "r+b") as f:
            f.truncate(t)


def case_to_json(case):
    out = dict(case)
    out["files"] = {r: [[o, (b.hex() if isinstance(b, (bytes, bytearray)) else b)] for o, b in pp]
                    for r, pp in case["files"].items()}
    out["descr"] = [list(d) for d in case["descr"]]
    return out


def cls_key(descr):
    """distinctness class: (object kind set, operator set)"""
    kinds = sorted(set(str(d[0]) for d in descr))
    ops = sorted(set(str(d[2]).split("^")[0] for d in descr))
    return "+".join(kinds) + " / " + "+".join(ops)


# ---------------------------------------------------------------------------------------
# journals

class JournalView:
    """journal blocks of a base (internal: through the journal inode's block map; external:
    the device file itself)"""

    def __init__(self, path, bs, offs, sb_lblk):
        self.path, self.bs, self.offs, self.sb_lblk = path, bs, offs, sb_lblk
        raw = rd(path, offs[sb_lblk], 1024) if sb_lblk < len(offs) else bytes(1024)
        self.jsb_off = offs[sb_lblk]
        self.incompat = struct.unpack_from(">I", raw, 40)[0]
        self.compat = struct.unpack_from(">I", raw, 36)[0]
        self.uuid = raw[48:64]
        self.csum = bool(self.incompat & 0x18)
        self.seed = PC.crc32c(0xFFFFFFFF, self.uuid)
        self.meta = []          # (lblk, type)
        with open(path, "rb") as f:
            for l, off in enumerate(offs):
                f.seek(off)
                h = f.read(12)
                if len(h) == 12 and struct.unpack_from(">I", h, 0)[0] == JBD_MAGIC:
                    self.meta.append((l, struct.unpack_from(">I", h, 4)[0]))

    def block(self, lblk):
        return bytearray(rd(self.path, self.offs[lblk], self.bs))

    def of_type(self, t):
        return [l for l, ty in self.meta if ty == t]


def _fix_block_csum(jv, buf, typ):
    bs = jv.bs
    if typ in (1, 5):
        buf[bs - 4:bs] = b"\0\0\0\0"
        c = PC.crc32c(jv.seed, bytes(buf))
        struct.pack_into(">I", buf, bs - 4, c)
    elif typ == 2:
        buf[16:20] = b"\0\0\0\0"
        c = PC.crc32c(jv.seed, bytes(buf))
        struct.pack_into(">I", buf, 16, c)


JSB_EXTRA = [("s_nr_users", 64, 4), ("s_users0", 0x100, 4), ("s_users0b", 0x10C, 4),
             ("s_uuid0", 48, 4), ("s_num_fc_blocks", 84, 4), ("s_head", 88, 4)]
SB_JFIELDS = [("s_journal_inum", 224, 4), ("s_journal_dev", 228, 4), ("s_journal_uuid0", 208, 4),
              ("s_journal_uuid3", 220, 4), ("s_last_orphan", 232, 4), ("s_jnl_backup_type", 253, 1),
              ("s_jnl_blocks0", 268, 4), ("s_jnl_blocks15", 328, 4), ("s_jnl_blocks16", 332, 4),
              ("s_feature_compat", 92, 4), ("s_feature_incompat", 96, 4),
              ("s_log_block_size", 24, 4), ("s_blocks_count_lo", 4, 4)]
JINODE_FIELDS = [("i_mode", 0, 2), ("i_size_lo", 4, 4), ("i_size_high", 108, 4), ("i_links_count", 26, 2),
                 ("i_flags", 32, 4), ("i_blocks_lo", 28, 4), ("i_block[0]", 40, 4), ("i_block[1]", 44, 4),
                 ("i_block[2]", 48, 4), ("i_block[3]", 52, 4), ("i_block[5]", 60, 4), ("i_dtime", 20, 4)]


def _sb_patch(rng, path, fields, kind, sb_off=1024):
    """little-endian superblock field of an ext2 superblock at sb_off; metadata_csum
    superblocks get their checksum put right most of the time (so that the value is used)"""
    name, off, size = rng.choice(fields)
    sb = bytearray(rd(path, sb_off, 1024))
    if len(sb) < 1024:
        return None
    v = int.from_bytes(sb[off:off + size], "little")
    nv, op = mut(rng, v, size)
    sb[off:off + size] = nv.to_bytes(size, "little")
    patches = [(sb_off + off, nv.to_bytes(size, "little"))]
    ro = struct.unpack_from("<I", sb, 100)[0]
    if ro & 0x400 and rng.random() < 0.7:
        c = PC.crc32c(0xFFFFFFFF, bytes(sb[:1020]))
        patches.append((sb_off + 1020, struct.pack("<I", c)))
        op += "+csumfix"
    return patches, (kind, name, op, "%#x->%#x" % (v, nv))


def journal_ops(rng, jv, role, img_path=None, jinode_off=None, sb_kind="sb_journal"):
    """one corruption of the journal `jv` (patches go to file role `role`) or of the
    filesystem's journal pointers.  Returns (role, patches, descr) or None."""
    bs = jv.bs
    ops = ["jsb_field"] * 4 + ["blk_header"] * 3 + ["revoke_count"] * 5 + ["revoke_entry"] * 2 + \
          ["desc_word"] * 5 + ["commit_field"] * 3 + ["block_op"] * 3 + ["bytes"] * 2
    if img_path:
        ops += ["fs_sb"] * 3
    if jinode_off is not None:
        ops += ["jinode"] * 2
    op = rng.choice(ops)
    fix = jv.csum and rng.random() < 0.6

    def whole(lblk, buf, typ, d):
        if fix and typ in (1, 2, 5):
            _fix_block_csum(jv, buf, typ)
            d = (d[0], d[1], d[2] + "+csumfix", d[3])
        return role, [(jv.offs[lblk], bytes(buf))], d

    if op == "jsb_field":
        fields = corrupt.JSB_FIELDS + JSB_EXTRA
        name, off, size = rng.choice(fields)
        buf = bytearray(rd(jv.path, jv.jsb_off, 1024))
        v = int.from_bytes(buf[off:off + size], "big")
        specials = {"s_blocksize": [0, 512, 1024, 2048, 4096, 65536, 1 << 31, 3],
                    "s_maxlen": [0, 1, 2, 1023, 1 << 31, 0xFFFFFFFF],
                    "s_first": [0, 1, 2, 0xFFFFFFFF], "s_start": [1, 2, 0xFFFFFFFF, 1 << 30],
                    "s_nr_users": [0, 1, 2, 48, 49, 0xFFFFFFFF],
                    "s_num_fc_blocks": [0, 1, 256, 0xFFFFFFFF, 1 << 31],
                    "s_feature_incompat": [0, 1, 2, 3, 0x8, 0x10, 0x18, 0x20, 0x23, 0x40, 0x13, 0xB],
                    "s_checksum_type": [0, 1, 2, 3, 4, 5, 255]}.get(name, ())
        nv, mop = mut(rng, v, size, specials)
        buf[off:off + size] = nv.to_bytes(size, "big")
        patches = [(jv.jsb_off + off, nv.to_bytes(size, "big"))]
        if jv.csum and name != "s_checksum" and rng.random() < 0.7:
            buf[0xFC:0x100] = b"\0\0\0\0"
            c = PC.crc32c(0xFFFFFFFF, bytes(buf))
            patches.append((jv.jsb_off + 0xFC, struct.pack(">I", c)))
            mop += "+csumfix"
        return role, patches, ("journal_sb", name, mop, "%#x->%#x" % (v, nv))
    if op == "blk_header":
        if not jv.meta:
            return None
        l, typ = rng.choice(jv.meta)
        buf = jv.block(l)
        name, off = rng.choice([("h_magic", 0), ("h_blocktype", 4), ("h_sequence", 8)])
        v = struct.unpack_from(">I", buf, off)[0]
        nv, mop = mut(rng, v, 4, [0, 1, 2, 3, 4, 5, 6, 0xFFFFFFFF] if name == "h_blocktype" else ())
        struct.pack_into(">I", buf, off, nv)
        return whole(l, buf, typ if name != "h_blocktype" else nv,
                     ("journal_" + JBD_TYPES.get(typ, "blk"), name, mop, "jblk%d %#x->%#x" % (l, v, nv)))
    if op in ("revoke_count", "revoke_entry"):
        ls = jv.of_type(5)
        if not ls:
            return None
        l = rng.choice(ls)
        buf = jv.block(l)
        if op == "revoke_count":
            v = struct.unpack_from(">I", buf, 12)[0]
            nv, mop = mut(rng, v, 4, [0, 1, 15, 16, 17, 20, 24, bs - 4, bs - 3, bs, bs + 1, bs + 8, 2 * bs,
                                      65536, 1 << 20, 1 << 31, 0xFFFFFFFF, 0xFFFFFFF0, v + 4, v + 8,
                                      v - 4, v + 4096], 0.6)
            struct.pack_into(">I", buf, 12, nv)
            return whole(l, buf, 5, ("journal_revoke", "r_count", mop, "jblk%d %#x->%#x" % (l, v, nv)))
        cnt = min(bs, max(20, struct.unpack_from(">I", buf, 12)[0]))
        off = 16 + 4 * rng.randrange(max(1, (cnt - 16) // 4))
        v = struct.unpack_from(">I", buf, off)[0]
        nv, mop = mut(rng, v, 4)
        struct.pack_into(">I", buf, off, nv)
        return whole(l, buf, 5, ("journal_revoke", "entry", mop, "jblk%d +%d %#x->%#x" % (l, off, v, nv)))
    if op == "desc_word":
        ls = jv.of_type(1)
        if not ls:
            return None
        l = rng.choice(ls)
        buf = jv.block(l)
        nz = [k for k in range(3, bs // 4) if buf[4 * k:4 * k + 4] != b"\0\0\0\0"]
        r = rng.random()
        if nz and r < 0.45:
            k = rng.choice(nz[:12])
        elif nz and r < 0.75:
            k = rng.choice(nz[-6:] + [min(bs // 4 - 1, nz[-1] + 1)])
        elif nz and r < 0.9:
            k = rng.choice(nz)
        else:
            k = rng.randrange(3, bs // 4)
        if rng.random() < 0.3:
            # 16-bit halves: tag flags live in the low half of a word for non-v3 tags
            off = 4 * k + rng.choice([0, 2])
            v = struct.unpack_from(">H", buf, off)[0]
            nv, mop = mut(rng, v, 2, [0, 1, 2, 4, 8, 0xA, 0xFFFF, v & ~8 & 0xFFFF, v | 8])
            struct.pack_into(">H", buf, off, nv)
        else:
            off = 4 * k
            v = struct.unpack_from(">I", buf, off)[0]
            nv, mop = mut(rng, v, 4, [0, 8, 0xA, 2, v & ~8 & 0xFFFFFFFF, v | 8, 0xFFFFFFFF])
            struct.pack_into(">I", buf, off, nv)
        return whole(l, buf, 1, ("journal_descriptor", "tag_word", mop, "jblk%d +%d %#x->%#x" % (l, off, v, nv)))
    if op == "commit_field":
        ls = jv.of_type(2)
        if not ls:
            return None
        l = rng.choice(ls)
        buf = jv.block(l)
        name, off, size = rng.choice([("h_chksum_type", 12, 1), ("h_chksum_size", 13, 1),
                                      ("h_chksum0", 16, 4), ("h_commit_sec", 48, 8),
                                      ("h_commit_nsec", 56, 4), ("h_sequence", 8, 4)])
        v = int.from_bytes(buf[off:off + size], "big")
        nv, mop = mut(rng, v, size, [0, 1, 2, 3, 4, 5, 32, 255] if size == 1 else ())
        buf[off:off + size] = nv.to_bytes(size, "big")
        if name == "h_chksum0":
            return role, [(jv.offs[l] + off, nv.to_bytes(size, "big"))], \
                ("journal_commit", name, mop, "jblk%d %#x->%#x" % (l, v, nv))
        return whole(l, buf, 2, ("journal_commit", name, mop, "jblk%d %#x->%#x" % (l, v, nv)))
    if op == "block_op":
        if not jv.meta:
            return None
        l, typ = rng.choice(jv.meta)
        what = rng.choice(["zero", "ones", "rand", "copy", "swap", "dup-next"])
        nm = "journal_" + JBD_TYPES.get(typ, "blk")
        if what == "zero":
            return role, [(jv.offs[l], bytes(bs))], (nm, "block", "zero", "jblk%d" % l)
        if what == "ones":
            return role, [(jv.offs[l], b"\xff" * bs)], (nm, "block", "ones", "jblk%d" % l)
        if what == "rand":
            return role, [(jv.offs[l], bytes(rng.getrandbits(8) for _ in range(bs)))], \
                (nm, "block", "rand", "jblk%d" % l)
        l2, typ2 = rng.choice(jv.meta)
        if what == "dup-next" and l + 1 < len(jv.offs):
            return role, [(jv.offs[l + 1], bytes(jv.block(l)))], (nm, "block", "dup-next", "jblk%d" % l)
        if what == "copy" or l2 == l:
            return role, [(jv.offs[l], bytes(jv.block(l2)))], \
                (nm, "block", "copy-from-" + JBD_TYPES.get(typ2, "blk"), "jblk%d<-jblk%d" % (l, l2))
        return role, [(jv.offs[l], bytes(jv.block(l2))), (jv.offs[l2], bytes(jv.block(l)))], \
            (nm, "block", "swap-with-" + JBD_TYPES.get(typ2, "blk"), "jblk%d<->jblk%d" % (l, l2))
    if op == "bytes":
        hi = max(l for l, _ in jv.meta) + 2 if jv.meta else 4
        l = rng.randrange(min(len(jv.offs), hi))
        n = rng.choice([1, 1, 2, 4, 8])
        o = rng.randrange(bs - n + 1)
        old = rd(jv.path, jv.offs[l] + o, n)
        new = bytes(rng.getrandbits(8) for _ in range(n))
        if new == old:
            new = bytes([old[0] ^ 1]) + old[1:]
        return role, [(jv.offs[l] + o, new)], ("journal_bytes", "any", "rand", "jblk%d+%d n%d" % (l, o, n))
    if op == "fs_sb":
        r = _sb_patch(rng, img_path, SB_JFIELDS, sb_kind)
        if not r:
            return None
        return "img", r[0], r[1]
    if op == "jinode":
        name, off, size = rng.choice(JINODE_FIELDS)
        raw = rd(img_path, jinode_off + off, size)
        v = int.from_bytes(raw, "little")
        nv, mop = mut(rng, v, size)
        return "img", [(jinode_off + off, nv.to_bytes(size, "little"))], \
            ("journal_inode", name.split("[")[0], mop, "%#x->%#x" % (v, nv))
    return None


def gen_journal_case(tag, cls, cid, base, jv, role, img_path, jinode_off=None, extra=None):
    """extra: optional callable(rng) -> (patches for img, descr list) from the fs universe"""
    rng = random.Random("%s|%s|%d" % (tag, cls, cid))
    nops = rng.choice([1, 1, 1, 2, 2, 3])
    files = {}
    descr = []
    for _ in range(nops):
        for _try in range(8):
            r = journal_ops(rng, jv, role, img_path, jinode_off)
            if r:
                break
        if not r:
            continue
        files.setdefault(r[0], []).extend(r[1])
        descr.append(r[2])
    if extra and rng.random() < 0.25:
        p, d = extra(rng)
        files.setdefault("img", []).extend(p)
        descr.extend(d)
    trunc = {}
    if role == "jnl" and rng.random() < 0.04:
        size = os.path.getsize(jv.path)
        trunc["jnl"] = rng.choice([0, 1024, 2048, jv.bs * 3, jv.bs * rng.randrange(1, max(2, size // jv.bs)),
                                   rng.randrange(size)])
        descr.append(("journal_dev", "file", "truncate", "to %d" % trunc["jnl"]))
    return {"cid": cid, "cls": cls, "base": base, "files": files, "truncate": trunc, "descr": descr}


# ---------------------------------------------------------------------------------------
# undo files

UNDO_HDR = [("num_keys", 8, 8), ("super_offset", 16, 8), ("key_offset", 24, 8), ("block_size", 32, 4),
            ("fs_block_size", 36, 4), ("sb_crc", 40, 4), ("state", 44, 4), ("f_compat", 48, 4),
            ("f_incompat", 52, 4), ("f_rocompat", 56, 4), ("fs_offset", 64, 8), ("header_crc", 508, 4),
            ("magic", 0, 8)]


def gen_undo_case(tag, cid, base, undo_path, img_path):
    rng = random.Random("%s|undo|%d" % (tag, cid))
    raw = bytearray(open(undo_path, "rb").read())
    u = undofmt.Undo(bytes(raw), verify_data=False)
    B = u.block_size
    kpb = B // 16 - 1
    nops = rng.choice([1, 1, 1, 2, 2, 3])
    descr = []
    touched = set()
    trunc = {}
    files = {}
    hdr_dirty = False
    kb_dirty = set()

    def put(off, b):
        raw[off:off + len(b)] = b
        touched.add((off, len(b)))

    for _ in range(nops):
        op = rng.choice(["hdr"] * 6 + ["key"] * 5 + ["keyblk"] * 2 + ["data"] * 2 + ["sb"] * 1 +
                        ["bytes"] * 2 + ["truncate"] * 1 + ["img_sb"] * 1)
        if op == "hdr":
            name, off, size = rng.choice(UNDO_HDR)
            v = int.from_bytes(raw[off:off + size], "little")
            nk = u.num_keys
            specials = {
                "block_size": [0, 1, 8, 16, 17, 32, 48, 512, 1023, 1025, 2048, 4096, 65536, 1 << 20,
                               (1 << 20) + 1, 1 << 21, 1 << 22, 1 << 23, 1 << 24, 1 << 30, 1 << 31,
                               0xFFFFFFFF, 0xFFFFFC00],
                "fs_block_size": [0, 1, 512, 1023, 4096, 1 << 16, 1 << 20, 1 << 31, 0xFFFFFFFF],
                "num_keys": [0, nk + 1, nk + kpb, kpb, kpb + 1, 2 * kpb, 1 << 16, 1 << 20, 1 << 32,
                             1 << 59, (1 << 61) + 1, (1 << 64) // 24 + 1, (1 << 64) - 1, 1 << 63],
                "key_offset": [0, 1, 2, 3, 1 << 32, (1 << 64) - 1, len(raw) // max(1, B), 1 << 53],
                "super_offset": [0, 2, 1 << 32, (1 << 64) - 1, len(raw) // max(1, B), 1 << 53],
                "state": [0, 1, 2, 0xFFFFFFFF], "f_compat": [0, 1, 2, 3, 0xFFFFFFFF],
                "fs_offset": [0, 1, 1024, 1 << 40, (1 << 63), (1 << 64) - 1],
            }.get(name, ())
            nv, mop = mut(rng, v, size, specials, 0.55)
            put(off, nv.to_bytes(size, "little"))
            if name != "header_crc":
                hdr_dirty = True
            descr.append(("undo_hdr", name, mop, "%#x->%#x" % (v, nv)))
        elif op in ("key", "keyblk") and u.keyblocks:
            kbi = rng.randrange(len(u.keyblocks))
            kb = u.keyblocks[kbi]
            if op == "keyblk":
                name, off, size = rng.choice([("kb_magic", 0, 4), ("kb_crc", 4, 4), ("kb_reserved", 8, 8)])
            else:
                j = rng.randrange(max(1, kb["nkeys"])) if rng.random() < 0.8 else rng.randrange(max(1, kpb))
                fname, fo, size = rng.choice([("fsblk", 0, 8), ("blk_crc", 8, 4), ("size", 12, 4), ("size", 12, 4)])
                name, off = "key." + fname, 16 + 16 * j + fo
            o = kb["file_off"] + off
            v = int.from_bytes(raw[o:o + size], "little")
            specials = {"key.size": [0, 1, B - 1, B + 1, 512 * B, 512 * B + 1, 512 * B - 1, 1 << 31,
                                     0xFFFFFFFF, 0x80000001, 1 << 24],
                        "key.fsblk": [0, 1, 1 << 32, (1 << 64) - 1, 1 << 53, (1 << 63) // max(1, u.fs_block_size)]
                        }.get(name, ())
            nv, mop = mut(rng, v, size, specials, 0.5)
            put(o, nv.to_bytes(size, "little"))
            if name != "kb_crc":
                kb_dirty.add(kbi)
            descr.append(("undo_keyblock" if op == "keyblk" else "undo_key", name, mop,
                          "kb%d %#x->%#x" % (kbi, v, nv)))
        elif op == "data" and u.keys:
            ki = rng.randrange(len(u.keys))
            k = u.keys[ki]
            if k["size"] == 0 or k["file_off"] + k["size"] > len(raw):
                continue
            o = k["file_off"] + rng.randrange(k["size"])
            put(o, bytes([raw[o] ^ (1 << rng.randrange(8))]))
            mop = "flip"
            if rng.random() < 0.4:
                # make the recorded crc agree, so that the damaged block would be replayed
                c = undofmt.crc32c(bytes(raw[k["file_off"]:k["file_off"] + k["size"]]))
                # locate the key entry
                idx = ki
                for kbi, kb in enumerate(u.keyblocks):
                    if idx < kb["nkeys"]:
                        put(kb["file_off"] + 16 + 16 * idx + 8, struct.pack("<I", c))
                        kb_dirty.add(kbi)
                        break
                    idx -= kb["nkeys"]
                mop = "flip+crcfix"
            descr.append(("undo_data", "byte", mop, "key%d" % ki))
        elif op == "sb" and u.sb is not None:
            so = u.super_offset * B
            o = so + rng.randrange(1024)
            put(o, bytes([raw[o] ^ (1 << rng.randrange(8))]))
            descr.append(("undo_sb", "byte", "flip", "+%d" % (o - so)))
        elif op == "bytes":
            n = rng.choice([1, 1, 2, 4, 8])
            o = rng.randrange(max(1, len(raw) - n))
            put(o, bytes(rng.getrandbits(8) for _ in range(n)))
            descr.append(("undo_bytes", u.region_at(o), "rand", "+%d n%d" % (o, n)))
        elif op == "truncate":
            t = rng.choice([0, 8, 100, 511, 512, 1024, B, 2 * B, 3 * B, rng.randrange(len(raw)),
                            (rng.randrange(len(raw)) // max(1, B)) * B])
            trunc["undo"] = t
            descr.append(("undo_file", "file", "truncate", "to %d" % t))
        elif op == "img_sb":
            o = 1024 + rng.randrange(1024)
            old = rd(img_path, o, 1)
            files.setdefault("img", []).append((o, bytes([old[0] ^ (1 << rng.randrange(8))])))
            descr.append(("undo_target_sb", "byte", "flip", "+%d" % (o - 1024)))
    # checksum fix-ups so that mutated fields are actually used
    for kbi in sorted(kb_dirty):
        if rng.random() < 0.8:
            kb = u.keyblocks[kbi]
            blk = bytearray(raw[kb["file_off"]:kb["file_off"] + B])
            if len(blk) == B:
                blk[4:8] = b"\0\0\0\0"
                put(kb["file_off"] + 4, struct.pack("<I", undofmt.crc32c(bytes(blk))))
                descr.append(("undo_keyblock", "kb_crc", "fixup", "kb%d" % kbi))
    if hdr_dirty and rng.random() < 0.85:
        put(508, struct.pack("<I", undofmt.crc32c(bytes(raw[:508]))))
        descr.append(("undo_hdr", "header_crc", "fixup", ""))
    if not descr:
        put(32, struct.pack("<I", 0))
        descr.append(("undo_hdr", "block_size", "zero", ""))
    # coalesce touched ranges into patches
    pp = []
    for off, n in sorted(touched):
        pp.append((off, bytes(raw[off:off + n])))
    files["undo"] = pp
    return {"cid": cid, "cls": "undo", "base": base, "files": files, "truncate": trunc, "descr": descr}


# ---------------------------------------------------------------------------------------
# qcow2 images (all fields big endian)

QCOW_HDR = [("magic", 0, 4), ("version", 4, 4), ("backing_file_offset", 8, 8), ("backing_file_size", 16, 4),
            ("cluster_bits", 20, 4), ("size", 24, 8), ("crypt_method", 32, 4), ("l1_size", 36, 4),
            ("l1_table_offset", 40, 8), ("refcount_table_offset", 48, 8),
            ("refcount_table_clusters", 56, 4), ("nb_snapshots", 60, 4), ("snapshots_offset", 64, 8)]


def gen_qcow_case(tag, cid, base, path):
    rng = random.Random("%s|qcow|%d" % (tag, cid))
    raw = open(path, "rb").read()
    flen = len(raw)
    cb = struct.unpack_from(">I", raw, 20)[0]
    csize = 1 << cb if 9 <= cb <= 22 else 4096
    size = struct.unpack_from(">Q", raw, 24)[0]
    l1_size = struct.unpack_from(">I", raw, 36)[0]
    l1_off = struct.unpack_from(">Q", raw, 40)[0]
    rc_off = struct.unpack_from(">Q", raw, 48)[0]
    l1 = [struct.unpack_from(">Q", raw, l1_off + 8 * i)[0] for i in range(min(l1_size, 4096))
          if l1_off + 8 * i + 8 <= flen]
    l2_offs = [e & ~(3 << 62) for e in l1 if e & ~(3 << 62)]
    nops = rng.choice([1, 1, 1, 2, 2, 3])
    pp, descr, trunc = [], [], {}
    ptr_specials = [0, 1, 8, 72, csize, csize + 512, l1_off, l1_off | (1 << 62), rc_off, flen, flen - 8,
                    flen - csize, flen + csize, size, size + 1, 1 << 40, (1 << 62) - csize, 1 << 62,
                    (1 << 63) | csize, (1 << 64) - 1, (1 << 63) - 1]
    for _ in range(nops):
        op = rng.choice(["hdr"] * 6 + ["l1"] * 4 + ["l2"] * 4 + ["refcount"] + ["bytes"] * 2 + ["truncate"] +
                        ["block_op"])
        if op == "hdr":
            name, off, sz = rng.choice(QCOW_HDR)
            v = int.from_bytes(raw[off:off + sz], "big")
            specials = {"cluster_bits": [0, 1, 8, 9, 10, 12, 16, 21, 22, 30, 31, 32, 33, 63, 64, 0xFFFFFFFF],
                        "l1_size": [0, 1, l1_size + 1, l1_size * 2, csize // 8, csize, 1 << 16, 1 << 24,
                                    1 << 29, 1 << 31, 0xFFFFFFFF],
                        "size": [0, 1, csize, size * 2, 1 << 40, 1 << 62, (1 << 63) - 1, 1 << 63, (1 << 64) - 1],
                        "l1_table_offset": ptr_specials, "refcount_table_offset": ptr_specials,
                        "crypt_method": [0, 1, 2], "version": [0, 1, 2, 3], }.get(name, ())
            nv, mop = mut(rng, v, sz, specials, 0.55)
            pp.append((off, nv.to_bytes(sz, "big")))
            descr.append(("qcow_hdr", name, mop, "%#x->%#x" % (v, nv)))
        elif op == "l1" and l1:
            i = rng.randrange(len(l1))
            if rng.random() < 0.3:
                i = rng.choice([0, len(l1) - 1])
            v = l1[i]
            nv, mop = mut(rng, v, 8, ptr_specials + [v & ~(1 << 63), v | (1 << 62), v + 1, v + 512], 0.6,
                          other=rng.choice(l1))
            pp.append((l1_off + 8 * i, nv.to_bytes(8, "big")))
            descr.append(("qcow_l1", "entry", mop, "l1[%d] %#x->%#x" % (i, v, nv)))
        elif op == "l2" and l2_offs:
            t = rng.choice(l2_offs)
            ents = [k for k in range(csize // 8) if raw[t + 8 * k:t + 8 * k + 8] != bytes(8)]
            k = rng.choice(ents) if ents and rng.random() < 0.8 else rng.randrange(csize // 8)
            if t + 8 * k + 8 > flen:
                continue
            v = struct.unpack_from(">Q", raw, t + 8 * k)[0]
            nv, mop = mut(rng, v, 8, ptr_specials + [v | (1 << 62), v + 1, t, t | (1 << 63)], 0.6)
            pp.append((t + 8 * k, nv.to_bytes(8, "big")))
            descr.append(("qcow_l2", "entry", mop, "l2@%#x[%d] %#x->%#x" % (t, k, v, nv)))
        elif op == "refcount" and rc_off + 16 <= flen:
            o = rc_off + 8 * rng.randrange(2)
            v = struct.unpack_from(">Q", raw, o)[0]
            nv, mop = mut(rng, v, 8, ptr_specials)
            pp.append((o, nv.to_bytes(8, "big")))
            descr.append(("qcow_refcount", "table_entry", mop, "%#x->%#x" % (v, nv)))
        elif op == "bytes":
            n = rng.choice([1, 1, 2, 4, 8])
            lim = flen if rng.random() < 0.5 else min(flen, l1_off + 8 * max(1, l1_size))
            o = rng.randrange(max(1, lim - n))
            pp.append((o, bytes(rng.getrandbits(8) for _ in range(n))))
            descr.append(("qcow_bytes", "any", "rand", "+%d n%d" % (o, n)))
        elif op == "truncate":
            t = rng.choice([0, 4, 71, 72, 104, csize, l1_off, l1_off + 8, rng.randrange(flen),
                            (rng.randrange(flen) // csize) * csize])
            trunc["qcow"] = t
            descr.append(("qcow_file", "file", "truncate", "to %d" % t))
        elif op == "block_op" and l2_offs:
            t = rng.choice(l2_offs + [l1_off])
            what = rng.choice(["zero", "ones", "rand", "copy-l1"])
            n = min(csize, flen - t)
            if n <= 0:
                continue
            if what == "zero":
                b = bytes(n)
            elif what == "ones":
                b = b"\xff" * n
            elif what == "rand":
                b = bytes(rng.getrandbits(8) for _ in range(n))
            else:
                b = raw[l1_off:l1_off + n]
            pp.append((t, b))
            descr.append(("qcow_table", "cluster", what, "@%#x" % t))
    if not descr:
        pp.append((20, struct.pack(">I", 31)))
        descr.append(("qcow_hdr", "cluster_bits", "special", "->31"))
    return {"cid": cid, "cls": "qcow", "base": base, "files": {"qcow": pp}, "truncate": trunc, "descr": descr}


# ---------------------------------------------------------------------------------------
# geometry-bearing superblock fields, with the superblock checksum put right (a
# metadata_csum superblock with a wrong checksum is rejected before any field is used)

SB_GEOM = [("s_inodes_count", 0, 4), ("s_blocks_count_lo", 4, 4), ("s_first_data_block", 20, 4),
           ("s_log_block_size", 24, 4), ("s_log_cluster_size", 28, 4), ("s_blocks_per_group", 32, 4),
           ("s_clusters_per_group", 36, 4), ("s_inodes_per_group", 40, 4), ("s_rev_level", 76, 4),
           ("s_first_ino", 84, 4), ("s_inode_size", 88, 2), ("s_feature_compat", 92, 4),
           ("s_feature_incompat", 96, 4), ("s_feature_ro_compat", 100, 4),
           ("s_reserved_gdt_blocks", 206, 2), ("s_journal_inum", 224, 4), ("s_desc_size", 254, 2),
           ("s_first_meta_bg", 260, 4), ("s_min_extra_isize", 348, 2), ("s_want_extra_isize", 350, 2),
           ("s_blocks_count_hi", 336, 4), ("s_log_groups_per_flex", 372, 1), ("s_mmp_block", 360, 8),
           ("s_usr_quota_inum", 576, 4), ("s_grp_quota_inum", 580, 4), ("s_backup_bgs0", 588, 4),
           ("s_prj_quota_inum", 620, 4), ("s_orphan_file_inum", 640, 4), ("s_checksum_type", 373, 1),
           ("s_encoding", 636, 2), ("s_def_hash_version", 252, 1), ("s_jnl_backup_type", 253, 1)]
SB_GEOM_SPECIALS = {
    "s_log_block_size": [0, 1, 2, 3, 6, 7, 16, 22, 31, 32, 0xFFFFFFFF],
    "s_log_cluster_size": [0, 1, 2, 4, 6, 19, 20, 29, 31, 32, 0xFFFFFFFF],
    "s_blocks_per_group": [0, 1, 7, 8, 9, 64, 256, 8192, 8193, 32768, 65528, 65536, 1 << 31, 0xFFFFFFFF],
    "s_clusters_per_group": [0, 1, 7, 8, 256, 8192, 32768, 65536, 1 << 31, 0xFFFFFFFF],
    "s_inodes_per_group": [0, 1, 7, 8, 9, 16, 2048, 65536, 1 << 20, 1 << 31, 0xFFFFFFFF, 0xFFFFFFF8],
    "s_inode_size": [0, 1, 64, 96, 127, 128, 129, 192, 256, 512, 1024, 2048, 4096, 8192, 32768, 65535],
    "s_desc_size": [0, 1, 16, 31, 32, 33, 48, 63, 64, 65, 128, 256, 1024, 2048, 32768, 65535],
    "s_first_data_block": [0, 1, 2, 8191, 8192, 1 << 20, 0xFFFFFFFF],
    "s_blocks_count_lo": [0, 1, 2, 8, 64, 1 << 20, 1 << 31, 0xFFFFFFFF],
    "s_blocks_count_hi": [1, 2, 0xFFFF, 0xFFFFFFFF],
    "s_inodes_count": [0, 1, 11, 12, 1 << 20, 1 << 31, 0xFFFFFFFF],
    "s_first_ino": [0, 1, 2, 10, 11, 12, 1 << 16, 0xFFFFFFFF],
    "s_rev_level": [0, 1, 2],
    "s_reserved_gdt_blocks": [0, 1, 255, 256, 1024, 4096, 65535],
    "s_first_meta_bg": [0, 1, 2, 1 << 16, 0xFFFFFFFF],
    "s_log_groups_per_flex": [0, 1, 4, 16, 30, 31, 32, 63, 255],
    "s_journal_inum": [0, 1, 2, 7, 8, 9, 11, 12, 0xFFFFFFFF],
    "s_usr_quota_inum": [0, 2, 3, 4, 8, 12, 0xFFFFFFFF], "s_grp_quota_inum": [0, 2, 3, 4, 8, 12, 0xFFFFFFFF],
    "s_prj_quota_inum": [0, 2, 3, 4, 8, 12, 0xFFFFFFFF], "s_orphan_file_inum": [0, 2, 8, 11, 12, 13, 0xFFFFFFFF],
    "s_mmp_block": [0, 1, 2, 1 << 32, (1 << 64) - 1],
    "s_min_extra_isize": [0, 1, 4, 28, 32, 128, 1024, 65535], "s_want_extra_isize": [0, 1, 4, 28, 32, 128, 1024, 65535],
    "s_checksum_type": [0, 1, 2, 255], "s_def_hash_version": [0, 1, 2, 3, 4, 5, 6, 7, 255],
    "s_encoding": [0, 1, 2, 65535], "s_backup_bgs0": [0, 1, 2, 0xFFFFFFFF],
}
_FEATURE_BITS = {"s_feature_compat": [0x4, 0x8, 0x10, 0x20, 0x200, 0x400, 0x1000],
                 "s_feature_incompat": [0x2, 0x4, 0x8, 0x10, 0x40, 0x80, 0x100, 0x200, 0x400, 0x1000, 0x2000,
                                        0x4000, 0x8000, 0x10000, 0x20000],
                 "s_feature_ro_compat": [0x1, 0x2, 0x8, 0x10, 0x20, 0x40, 0x100, 0x200, 0x400, 0x1000, 0x2000,
                                         0x4000, 0x8000, 0x10000]}


def sb_geom_op(rng, img_path):
    """-> (patches, descr) on the primary superblock of img_path.  40% of the time a
    *consistent pair* is changed (blocks/clusters per group; inodes per group and inode
    count; block and cluster size), because the library cross-checks those fields."""
    sb = bytearray(rd(img_path, 1024, 1024))

    def get(off, size=4):
        return int.from_bytes(sb[off:off + size], "little")
    patches = []

    def put(off, size, val):
        sb[off:off + size] = val.to_bytes(size, "little")
        patches.append((1024 + off, val.to_bytes(size, "little")))
    if rng.random() < 0.4:
        which = rng.choice(["per_group", "inodes", "blocksize"])
        if which == "per_group":
            v = get(32)
            nv, op = mut(rng, v, 4, SB_GEOM_SPECIALS["s_blocks_per_group"], 0.7)
            put(32, 4, nv)
            put(36, 4, nv)
            name = "s_blocks_per_group=s_clusters_per_group"
        elif which == "inodes":
            v = get(40)
            nv, op = mut(rng, v, 4, SB_GEOM_SPECIALS["s_inodes_per_group"], 0.7)
            bpg = get(32) or 1
            blocks = get(4) | (get(336) << 32 if get(96) & 0x80 else 0)
            groups = (blocks - get(20) + bpg - 1) // bpg
            put(40, 4, nv)
            put(0, 4, (groups * nv) & 0xFFFFFFFF)
            name = "s_inodes_per_group+s_inodes_count"
        else:
            v = get(24)
            nv, op = mut(rng, v, 4, SB_GEOM_SPECIALS["s_log_block_size"], 0.7)
            put(24, 4, nv)
            put(28, 4, nv)
            name = "s_log_block_size=s_log_cluster_size"
        op = "pair-" + op
    else:
        name, off, size = rng.choice(SB_GEOM)
        v = get(off, size)
        if name in _FEATURE_BITS:
            nv, op = v ^ rng.choice(_FEATURE_BITS[name]), "flipfeature"
        else:
            nv, op = mut(rng, v, size, SB_GEOM_SPECIALS.get(name, ()), 0.6)
        put(off, size, nv)
    ro = struct.unpack_from("<I", sb, 100)[0]
    if ro & 0x400 and rng.random() < 0.85:
        patches.append((1024 + 1020, struct.pack("<I", PC.crc32c(0xFFFFFFFF, bytes(sb[:1020])))))
        op += "+csumfix"
    return patches, ("sb_geom", name, op, "%#x->%#x" % (v, nv))
