"""Materialise /repo's current working tree into a scratch directory and build it.

One build per (tree content key, variant).  Variants: plain, asan, tsan, nohook.
Scratch lives outside /repo and /verif (default /dev/shm/e2fs-verif, else /var/tmp).
"""
import fcntl
import hashlib
import os
import shutil
import subprocess
import sys
import time

REPO = os.environ.get("VERIF_REPO", "/repo")
VERIF = os.path.dirname(os.path.dirname(os.path.abspath(__file__)))
GUARD = "E2FSPROGS_VERIF"


def scratch_base():
    b = os.environ.get("VERIF_SCRATCH")
    if b:
        return b
    for cand in ("/dev/shm", "/var/tmp"):
        if os.path.isdir(cand) and os.access(cand, os.W_OK):
            return os.path.join(cand, "e2fs-verif")
    return "/var/tmp/e2fs-verif"


VARIANTS = {
    "plain": dict(cc="gcc", cflags="-O1 -g -D%s" % GUARD, ldflags=""),
    "asan": dict(
        cc="gcc",
        cflags="-O1 -g -fno-omit-frame-pointer -fsanitize=address -fsanitize=bounds "
               "-fno-sanitize-recover=all -D%s" % GUARD,
        ldflags="-fsanitize=address -fsanitize=bounds"),
    "tsan": dict(cc="gcc", cflags="-O1 -g -fsanitize=thread -D%s" % GUARD,
                 ldflags="-fsanitize=thread"),
    "nohook": dict(cc="gcc", cflags="-O2 -g", ldflags=""),
}

SAN_ENV = {
    "asan": {"ASAN_OPTIONS": "detect_leaks=0:abort_on_error=0:exitcode=99:"
                             "allocator_may_return_null=1:handle_segv=1:"
                             "detect_stack_use_after_return=0",
             "UBSAN_OPTIONS": "print_stacktrace=1:halt_on_error=1:exitcode=99"},
    "tsan": {"TSAN_OPTIONS": "halt_on_error=0:exitcode=66:second_deadlock_stack=1"},
}

TOOLS = {
    "e2fsck": "e2fsck/e2fsck", "mke2fs": "misc/mke2fs", "tune2fs": "misc/tune2fs",
    "dumpe2fs": "misc/dumpe2fs", "e2image": "misc/e2image", "e2undo": "misc/e2undo",
    "e2freefrag": "misc/e2freefrag", "debugfs": "debugfs/debugfs",
    "resize2fs": "resize/resize2fs", "badblocks": "misc/badblocks",
    "e2label": "misc/e2label", "chattr": "misc/chattr", "lsattr": "misc/lsattr",
    "e4defrag": "misc/e4defrag", "e4crypt": "misc/e4crypt", "filefrag": "misc/filefrag",
    "e2mmpstatus": "misc/e2mmpstatus",
}


def _file_list():
    out = subprocess.run(["git", "-C", REPO, "ls-files", "-co", "--exclude-standard", "-z"],
                         stdout=subprocess.PIPE, check=True).stdout
    files = [f for f in out.decode("utf-8", "surrogateescape").split("\0") if f]
    files = [f for f in files if os.path.lexists(os.path.join(REPO, f))]
    files.sort()
    return files


def tree_key(files=None):
    """SHA-256 over the file list and contents of the working tree (sources only;
    the tests/ directory's bulky golden data is hashed too - it is small enough)."""
    if files is None:
        files = _file_list()
    h = hashlib.sha256()
    for f in files:
        p = os.path.join(REPO, f)
        h.update(f.encode("utf-8", "surrogateescape") + b"\0")
        try:
            st = os.lstat(p)
            if os.path.islink(p):
                h.update(b"L" + os.readlink(p).encode("utf-8", "surrogateescape"))
            elif os.path.isfile(p):
                h.update(b"F%o" % (st.st_mode & 0o111))
                with open(p, "rb") as fh:
                    while True:
                        b = fh.read(1 << 20)
                        if not b:
                            break
                        h.update(b)
        except OSError:
            h.update(b"?")
        h.update(b"\0")
    return h.hexdigest()[:20]


class Build:
    def __init__(self, root, variant):
        self.root = root
        self.variant = variant
        self.spec = VARIANTS[variant]

    def tool(self, name):
        return os.path.join(self.root, TOOLS.get(name, name))

    def san_env(self):
        return dict(SAN_ENV.get(self.variant, {}))

    def driver(self, name, extra_cflags="", extra_libs=""):
        """Compile /verif/drivers/<name>.c against this build; returns the binary path."""
        src = os.path.join(VERIF, "drivers", name + ".c")
        outdir = os.path.join(self.root, "_drivers")
        os.makedirs(outdir, exist_ok=True)
        tag = hashlib.sha256(open(src, "rb").read() + extra_cflags.encode()).hexdigest()[:10]
        out = os.path.join(outdir, "%s-%s" % (name, tag))
        if os.path.exists(out):
            return out
        lock = open(out + ".lock", "w")
        fcntl.flock(lock, fcntl.LOCK_EX)
        try:
            if os.path.exists(out):
                return out
            libs = ["lib/libsupport.a", "lib/libext2fs.a", "lib/libe2p.a", "lib/libcom_err.a"]
            cmd = ([self.spec["cc"]] + self.spec["cflags"].split() + extra_cflags.split() +
                   ["-I", os.path.join(self.root, "lib"), "-I", self.root,
                    "-I", os.path.join(self.root, "include"),
                    "-I", os.path.join(self.root, "lib/ext2fs"),
                    "-I", os.path.join(self.root, "e2fsck"),
                    "-o", out + ".tmp", src] +
                   [os.path.join(self.root, l) for l in libs] +
                   self.spec["ldflags"].split() + extra_libs.split() +
                   ["-lblkid", "-luuid", "-lpthread", "-ldl"])
            r = subprocess.run(cmd, stdout=subprocess.PIPE, stderr=subprocess.STDOUT)
            if r.returncode != 0:
                sys.stderr.write(r.stdout.decode("utf-8", "replace"))
                raise BuildError("driver %s failed to compile (%s)" % (name, self.variant))
            os.rename(out + ".tmp", out)
            return out
        finally:
            fcntl.flock(lock, fcntl.LOCK_UN)
            lock.close()


class BuildError(Exception):
    pass


def _prune_old(base, key):
    """Drop builds of other trees, but never one that was used recently: several checks
    (and scratch-tree validation runs) may be running side by side."""
    bdir = os.path.join(base, "build")
    if not os.path.isdir(bdir):
        return
    now = time.time()
    cands = []
    for d in os.listdir(bdir):
        p = os.path.join(bdir, d)
        if d == key or not os.path.isdir(p):
            continue
        newest = 0
        for v in os.listdir(p):
            st = os.path.join(p, v, ".verif-built")
            try:
                newest = max(newest, os.path.getmtime(st))
            except OSError:
                try:
                    newest = max(newest, os.path.getmtime(os.path.join(p, v)))
                except OSError:
                    pass
        cands.append((newest, p))
    cands.sort()
    keep = 6
    for i, (t, p) in enumerate(cands):
        age = now - t
        if age > 3 * 3600 or (len(cands) - i > keep and age > 1800):
            shutil.rmtree(p, ignore_errors=True)


def get_build(variant="plain", quiet=False):
    """Return a Build for the current working tree of /repo, building if necessary."""
    base = scratch_base()
    os.makedirs(os.path.join(base, "build"), exist_ok=True)
    files = _file_list()
    key = tree_key(files)
    root = os.path.join(base, "build", key, variant)
    stamp = os.path.join(root, ".verif-built")
    lockf = open(os.path.join(base, "build", "%s-%s.lock" % (key, variant)), "w")
    fcntl.flock(lockf, fcntl.LOCK_EX)
    try:
        if os.path.exists(stamp):
            try:
                os.utime(stamp)
            except OSError:
                pass
            return Build(root, variant)
        # bounded cache: drop builds of other trees (take a global lock for that)
        glock = open(os.path.join(base, "build", "global.lock"), "w")
        fcntl.flock(glock, fcntl.LOCK_EX)
        try:
            _prune_old(base, key)
        finally:
            fcntl.flock(glock, fcntl.LOCK_UN)
            glock.close()
        t0 = time.time()
        if os.path.isdir(root):
            shutil.rmtree(root)
        os.makedirs(root)
        lst = os.path.join(root, ".files")
        with open(lst, "wb") as fh:
            fh.write(b"\0".join(f.encode("utf-8", "surrogateescape") for f in files))
        subprocess.run(["rsync", "-a", "--from0", "--files-from=" + lst, REPO + "/", root + "/"],
                       check=True)
        # in-tree build products of /repo are git-ignored, hence not copied; but make sure
        for junk in ("config.status", "config.log", "config.cache"):
            p = os.path.join(root, junk)
            if os.path.exists(p):
                os.unlink(p)
        spec = VARIANTS[variant]
        env = dict(os.environ)
        env.update({"CC": spec["cc"], "CFLAGS": spec["cflags"], "LDFLAGS": spec["ldflags"]})
        # sanitizer runtimes must not make configure's test programs fail
        env["ASAN_OPTIONS"] = "detect_leaks=0"
        log = open(os.path.join(root, ".verif-build.log"), "wb")
        r = subprocess.run(["./configure", "--disable-nls", "--disable-fuse2fs",
                            "--disable-e2initrd-helper", "--quiet"],
                           cwd=root, env=env, stdout=log, stderr=subprocess.STDOUT)
        if r.returncode != 0:
            log.close()
            raise BuildError("configure failed (%s); see %s" % (variant, log.name))
        r = subprocess.run(["make", "-j16", "-s", "V=0"], cwd=root, env=env,
                           stdout=log, stderr=subprocess.STDOUT)
        log.close()
        if r.returncode != 0:
            tail = open(log.name, "rb").read()[-3000:].decode("utf-8", "replace")
            sys.stderr.write(tail)
            raise BuildError("make failed (%s); see %s" % (variant, log.name))
        for t in ("e2fsck", "mke2fs", "debugfs", "resize2fs", "tune2fs", "dumpe2fs",
                  "e2image", "e2undo", "e2freefrag"):
            if not os.path.exists(os.path.join(root, TOOLS[t])):
                raise BuildError("tool %s missing after build" % t)
        open(stamp, "w").write("%.1f\n" % (time.time() - t0))
        if not quiet:
            sys.stderr.write("[build] %s %s built in %.1fs at %s\n" %
                             (variant, key, time.time() - t0, root))
        return Build(root, variant)
    finally:
        fcntl.flock(lockf, fcntl.LOCK_UN)
        lockf.close()


def clean():
    shutil.rmtree(scratch_base(), ignore_errors=True)


if __name__ == "__main__":
    v = sys.argv[1] if len(sys.argv) > 1 else "plain"
    if v == "clean":
        clean()
    else:
        b = get_build(v)
        print(b.root)
