"""The image zoo: deterministic small filesystems over a feature lattice.

build_image(build, spec, path, work) creates one image with the tools of `build`.
corpus_images(work) unpacks the committed corpus (/verif/corpus/*.img.xz), built once
with the pinned tree, for checks that judge *consumers* of images.
"""
import json
import os
import random
import shutil
import subprocess

from . import run
from .gen import trees

VERIF = os.path.dirname(os.path.dirname(os.path.abspath(__file__)))
UUID = "6b33f586-a183-4383-921d-30ab132db9bf"
HASH_SEED = "e1deb3c3-d7b8-4c3a-9c2f-8b1b8f3d2a11"

# name, size_kb, mke2fs options, tree profile, extras
SPECS = [
    dict(index=True, name="ext2_1k", kb=8192, args="-t ext2 -b 1024 -I 128", tree="std", extras=["deepfile"]),
    dict(name="ext2_4k", kb=16384, args="-t ext2 -b 4096 -I 256", tree="std"),
    dict(name="ext2_2k_nosparse", kb=8192, args="-t ext2 -b 2048 -O ^sparse_super,^resize_inode -g 1024",
         tree="tiny"),
    dict(name="ext3_1k", kb=8192, args="-t ext3 -b 1024 -I 256 -J size=1", tree="std"),
    dict(index=True, name="ext3_4k_htree", kb=16384, args="-t ext3 -b 4096 -I 256", tree="wide"),
    dict(index=True, name="ext4_1k", kb=8192, args="-t ext4 -b 1024 -I 256 -J size=1", tree="std",
         extras=["deepfile", "xattrs"]),
    dict(name="ext4_4k", kb=32768, args="-t ext4 -b 4096 -I 256 -J size=4", tree="std",
         extras=["xattrs"], big=True),
    dict(index=True, name="ext4_1k_wide", kb=16384, args="-t ext4 -b 1024 -I 256 -J size=1", tree="wide"),
    dict(name="ext4_2k_i512", kb=8192, args="-t ext4 -b 2048 -I 512 -O ^has_journal", tree="std",
         extras=["xattrs"]),
    dict(name="ext4_1k_i1024", kb=8192, args="-t ext4 -b 1024 -I 1024 -O ^has_journal -N 512", tree="std",
         extras=["xattrs"]),
    dict(name="ext4_1k_i128", kb=8192, args="-t ext4 -b 1024 -I 128 -O ^has_journal", tree="std"),
    dict(index=True, name="ext4_nocsum", kb=8192, args="-t ext4 -b 1024 -O ^metadata_csum,^uninit_bg -J size=1",
         tree="std"),
    dict(name="ext4_gdtcsum", kb=8192, args="-t ext4 -b 1024 -O ^metadata_csum,uninit_bg -J size=1",
         tree="std"),
    dict(index=True, name="ext4_csumseed", kb=8192, args="-t ext4 -b 1024 -O metadata_csum_seed -J size=1",
         tree="std", extras=["xattrs"]),
    dict(name="ext4_flex4_g", kb=16384, args="-t ext4 -b 1024 -G 4 -g 1024 -J size=1", tree="std"),
    dict(name="ext4_noflex", kb=8192, args="-t ext4 -b 1024 -O ^flex_bg -g 2048 -J size=1", tree="std"),
    dict(name="ext4_metabg", kb=16384, args="-t ext4 -b 1024 -O meta_bg,^resize_inode -g 512 -J size=1",
         tree="std"),
    dict(name="ext4_32bit", kb=8192, args="-t ext4 -b 1024 -O ^64bit -J size=1", tree="std"),
    dict(index=True, name="ext4_bigalloc4", kb=32768, args="-t ext4 -b 1024 -O bigalloc -C 4096 -J size=1", tree="std",
         extras=["deepfile"]),
    dict(name="ext4_bigalloc16", kb=65536, args="-t ext4 -b 4096 -O bigalloc -C 65536 -J size=4",
         tree="tiny"),
    dict(name="ext4_inline", kb=8192, args="-t ext4 -b 1024 -I 256 -O inline_data -J size=1", tree="std",
         extras=["xattrs"]),
    dict(index=True, name="ext4_inline_4k", kb=16384, args="-t ext4 -b 4096 -I 512 -O inline_data,^has_journal",
         tree="wide"),
    dict(name="ext4_sparse2", kb=16384, args="-t ext4 -b 1024 -O sparse_super2 -g 2048 -J size=1",
         tree="std"),
    dict(name="ext4_eainode", kb=16384, args="-t ext4 -b 1024 -I 256 -O ea_inode -J size=1", tree="std",
         extras=["xattrs", "bigxattr"], quota_after=True),  # settle: ea_inode i_blocks defect (C15)
    dict(name="ext4_quota", kb=8192, args="-t ext4 -b 1024 -O quota -J size=1", tree="std",
         quota_after=True),
    dict(name="ext4_project", kb=8192, args="-t ext4 -b 1024 -I 256 -O quota,project -E quotatype=usrquota:grpquota:prjquota -J size=1",
         tree="tiny", quota_after=True),
    dict(name="ext4_orphanfile", kb=8192, args="-t ext4 -b 1024 -O orphan_file -J size=1", tree="std"),
    dict(name="ext4_mmp", kb=8192, args="-t ext4 -b 1024 -O mmp -J size=1", tree="tiny"),
    dict(index=True, name="ext4_largedir", kb=16384, args="-t ext4 -b 1024 -O large_dir -J size=1", tree="wide"),
    dict(name="ext4_nodirindex", kb=8192, args="-t ext4 -b 1024 -O ^dir_index -J size=1", tree="std"),
    dict(index=True, name="ext4_64groups", kb=16384, args="-t ext4 -b 1024 -g 256 -N 1024 -J size=1", tree="std"),
    dict(name="ext4_stride", kb=16384, args="-t ext4 -b 4096 -E stride=4,stripe_width=8 -J size=4",
         tree="std"),
    dict(name="ext4_nofiletype", kb=8192, args="-t ext4 -b 1024 -O ^filetype -J size=1", tree="std"),
    dict(name="ext4_hugefile_nodirnlink", kb=8192, args="-t ext4 -b 1024 -O ^huge_file,^dir_nlink,^extra_isize -J size=1",
         tree="std"),
    dict(name="ext4_full", kb=4096, args="-t ext4 -b 1024 -J size=1 -m 0", tree="std", fill=True),
    dict(name="ext4_onegroup", kb=4096, args="-t ext4 -b 4096 -O ^has_journal", tree="tiny"),
    dict(name="ext4_empty", kb=8192, args="-t ext4 -b 1024 -J size=1", tree=None),
    dict(name="ext4_noextent_64", kb=8192, args="-t ext4 -b 1024 -O ^extent,^64bit -J size=1", tree="std",
         extras=["deepfile"]),
    # > 32768 physically and logically contiguous blocks in one file (extent length limits);
    # kept out of the corruption universes (big=True) so that their case numbering is stable
    dict(name="ext4_bigextent", kb=65536, big=True,
         args="-t ext4 -b 1024 -O sparse_super2,^has_journal -E num_backup_sb=0", tree="tiny",
         extras=["bigfile"]),
    # inode tables of 26 blocks per group (not a multiple of the 8-block scan window), inodes in
    # use in groups 0 and 1
    dict(name="ext4_oddtable", kb=24576, args="-t ext4 -b 1024 -I 256 -g 8192 -N 312 -J size=1", tree="std"),
    # bigalloc + quota, and a directory with 700 entries: clearing that directory makes e2fsck
    # reconnect hundreds of inodes, i.e. grow lost+found by whole clusters and charge them to quota
    dict(name="ext4_bigalloc_quota", kb=32768, args="-t ext4 -b 1024 -O bigalloc,quota -C 4096 -J size=1",
         tree="tiny", extras=["manylinks"], quota_after=True),
    # 128-byte inodes: every attribute lives in an xattr block, some with an empty value; outside
    # the corruption universes (big=True keeps their numbering stable)
    dict(name="ext4_i128_emptyxattr", kb=8192, big=True, args="-t ext4 -b 1024 -I 128 -J size=1", tree="tiny",
         extras=["xattrs", "emptyxattr"]),
    # external journal devices (s_first = 3 at 1k blocks, 2 at 4k): journal replay checks only
    dict(name="ext4_xj1k", kb=8192, big=True, args="-t ext4 -b 1024 -I 256", extjournal=2048, tree="tiny"),
    dict(name="ext4_xj4k", kb=16384, big=True, args="-t ext4 -b 4096 -I 256", extjournal=8192, tree="tiny"),
    # casefold feature, directories WITHOUT the casefold flag holding names that differ only in case
    dict(name="ext4_casefold_mixed", kb=8192, args="-t ext4 -b 1024 -O casefold -J size=1", tree="tiny",
         extras=["casecollide"], big=True),
    dict(name="ext4_4k_encodings", kb=16384, args="-t ext4 -b 4096 -O ^has_journal,stable_inodes", tree="std"),
]

QUICK_NAMES = ["ext2_1k", "ext3_1k", "ext4_1k", "ext4_4k", "ext4_nocsum", "ext4_bigalloc4",
               "ext4_inline", "ext4_metabg", "ext4_eainode", "ext4_64groups", "ext4_quota",
               "ext4_flex4_g"]


def spec_by_name(name):
    for s in SPECS:
        if s["name"] == name:
            return s
    raise KeyError(name)


class ZooError(Exception):
    pass


def make_host_tree(spec, dirpath, seed=0):
    rng = random.Random("%s|%d" % (spec["name"], seed))
    trees.make_tree(dirpath, rng, profile=spec["tree"], big=spec.get("big", False))
    if "bigfile" in spec.get("extras", []):
        p = os.path.join(dirpath, "big_contiguous")
        with open(p, "wb") as f:
            chunk = trees.pattern(4242, 251 * 4096)
            left = 40000 * 1024
            while left > 0:
                f.write(chunk[:min(left, len(chunk))])
                left -= len(chunk)
        os.utime(p, (trees.MTIME_BASE, trees.MTIME_BASE))
        os.utime(dirpath, (trees.MTIME_BASE, trees.MTIME_BASE))
    if "manylinks" in spec.get("extras", []):
        d = os.path.join(dirpath, "manylinks")
        os.mkdir(d)
        for i in range(700):
            os.symlink("t%d" % i, os.path.join(d, "l%04d" % i))
        os.utime(d, (trees.MTIME_BASE, trees.MTIME_BASE))
        os.utime(dirpath, (trees.MTIME_BASE, trees.MTIME_BASE))
    if "casecollide" in spec.get("extras", []):
        # names that differ only in case, in small (single-block) case-SENSITIVE directories and in
        # the root of a filesystem that has the casefold feature
        for d, names in (("", ["INDEX", "index"]), ("proj", ["Makefile", "makefile"]),
                         ("docs", ["README", "readme", "ReadMe", "Straße", "STRASSE", "strasse"])):
            dd = os.path.join(dirpath, d)
            os.makedirs(dd, exist_ok=True)
            for k, n in enumerate(names):
                with open(os.path.join(dd, n), "wb") as f:
                    f.write(trees.pattern(900 + k, 100 + 37 * k))
                os.utime(os.path.join(dd, n), (trees.MTIME_BASE, trees.MTIME_BASE))
            os.utime(dd, (trees.MTIME_BASE, trees.MTIME_BASE))
        os.utime(dirpath, (trees.MTIME_BASE, trees.MTIME_BASE))
    if "deepfile" in spec.get("extras", []):
        # > 340 extents at 1k blocks: extent tree of depth 2 / double-indirect for block maps
        p = os.path.join(dirpath, "deep_sparse")
        islands = 400
        with open(p, "wb") as f:
            for i in range(islands):
                f.seek(i * 3072)
                f.write(trees.pattern(i, 600))
            f.truncate(islands * 3072 + 100)
        os.utime(p, (trees.MTIME_BASE, trees.MTIME_BASE))
        os.utime(dirpath, (trees.MTIME_BASE, trees.MTIME_BASE))


def build_image(b, spec, path, work, seed=0, keep_tree=False):
    """Create the image file `path` for spec with the tools of build b.  Returns info dict."""
    env = run.base_env(b)
    if os.path.exists(path):
        os.unlink(path)
    with open(path, "wb") as f:
        f.truncate(spec["kb"] * 1024)
    args = [b.tool("mke2fs"), "-q", "-F", "-U", UUID, "-E", "hash_seed=" + HASH_SEED, "-L", spec["name"][:16]]
    margs = spec["args"].split()
    # merge -E options
    if "-E" in margs:
        i = margs.index("-E")
        args[args.index("-E") + 1] += "," + margs[i + 1]
        del margs[i:i + 2]
    args += margs
    jdev = None
    if spec.get("extjournal"):
        jdev = path + ".jnl"
        with open(jdev, "wb") as f:
            f.truncate(spec["extjournal"] * 1024)
        bs = "1024"
        if "-b" in margs:
            bs = margs[margs.index("-b") + 1]
        r = run.run([b.tool("mke2fs"), "-q", "-F", "-O", "journal_dev", "-b", bs,
                     "-U", "11111111-2222-3333-4444-555555555555", jdev], env=env)
        if r.rc != 0:
            raise ZooError("mke2fs journal_dev failed: " + r.etext)
        # mke2fs -J device= insists on a block device: make the filesystem without a journal
        # and attach the journal device afterwards (see below)
        args += ["-O", "^has_journal"]
    tdir = None
    if spec["tree"]:
        tdir = os.path.join(work, "tree-" + spec["name"])
        shutil.rmtree(tdir, ignore_errors=True)
        make_host_tree(spec, tdir, seed)
        args += ["-d", tdir]
    args.append(path)
    r = run.run(args, env=env, timeout=300)
    if r.rc != 0:
        raise ZooError("mke2fs failed for %s: rc=%s %s" % (spec["name"], r.rc, r.etext[-500:]))
    if jdev:
        import struct
        r = run.run([b.tool("debugfs"), "-w", "-f", "-", path], env=env, timeout=300,
                    stdin=b"ssv journal_inum 0\nfeature has_journal\nssv journal_dev 0x9999\n"
                          b"ssv journal_uuid 11111111-2222-3333-4444-555555555555\n")
        if r.rc != 0:
            raise ZooError("attaching the external journal failed: " + r.etext[-300:])
        bsz = int(bs)
        jo = (2 if bsz == 1024 else 1) * bsz
        with open(path, "rb") as f:
            f.seek(1024 + 104)
            fsuuid = f.read(16)
        with open(jdev, "r+b") as f:          # one user: this filesystem
            f.seek(jo + 64)
            f.write(struct.pack(">I", 1))
            f.seek(jo + 0x100)
            f.write(fsuuid)
        r = run.run([b.tool("e2fsck"), "-fy", "-j", jdev, path], env=env, timeout=300)
        if r.rc not in (0, 1):
            raise ZooError("settling the external journal pair failed rc=%s: %s" % (r.rc, r.text[-500:]))
    script = []
    ex = spec.get("extras", [])
    if "xattrs" in ex:
        # in-inode, block and (with ea_inode) value-inode attributes on a few fixed inodes
        script += ["mkdir /xa", "write /dev/null /xa/f1", "write /dev/null /xa/f2",
                   "ea_set /xa/f1 user.small v1", "ea_set /xa/f1 user.mid %s" % ("m" * 180),
                   "ea_set /xa/f1 trusted.t1 %s" % ("t" * 300),
                   "ea_set /xa/f2 user.a %s" % ("a" * 90), "ea_set /xa/f2 security.sel ctx:obj:1",
                   "ea_set /xa user.dirattr onadir"]
    if "emptyxattr" in ex:
        script += ["write /dev/null /xa/e1", 'ea_set /xa/e1 user.flag ""', "ea_set /xa/e1 user.color red",
                   "write /dev/null /xa/e2", 'ea_set /xa/e2 user.empty ""',
                   'ea_set /xa/f2 user.also_empty ""']
    if "bigxattr" in ex:
        big = os.path.join(work, "bigval-" + spec["name"])
        with open(big, "wb") as f:
            f.write(trees.pattern(77, 5000))
        big2 = os.path.join(work, "bigval2-" + spec["name"])
        with open(big2, "wb") as f:
            f.write(trees.pattern(78, 70000))
        script += ["write /dev/null /xa/big", "ea_set -f %s /xa/big user.big" % big,
                   "ea_set -f %s /xa/big user.huge" % big2, "ea_set /xa/big user.tiny x"]
    if spec.get("fill"):
        # fill the filesystem to the brim with one file per remaining chunk
        filler = os.path.join(work, "filler-" + spec["name"])
        with open(filler, "wb") as f:
            f.write(trees.pattern(5, 200 * 1024))
        for i in range(40):
            script.append("write %s /fill%d" % (filler, i))
    if script:
        sfile = os.path.join(work, "zoo-script-" + spec["name"])
        with open(sfile, "w") as f:
            f.write("\n".join(script) + "\n")
        r = run.run([b.tool("debugfs"), "-w", "-f", sfile, path], env=env, timeout=300)
        if r.rc != 0:
            raise ZooError("debugfs population failed for %s: %s" % (spec["name"], r.etext[-500:]))
    if spec.get("index"):
        # libext2fs never creates an htree index by itself; e2fsck -D does
        r = run.run([b.tool("e2fsck"), "-fyD", path], env=env, timeout=300)
        if r.rc not in (0, 1):
            raise ZooError("indexing e2fsck -fyD failed for %s rc=%s: %s" % (spec["name"], r.rc, r.text[-800:]))
    if spec.get("fill") or spec.get("quota_after"):
        # a failed write (ENOSPC) can leave a partially written file; let e2fsck settle counts
        r = run.run([b.tool("e2fsck"), "-fy", path] + (["-j", jdev] if False else []), env=env, timeout=300)
        if r.rc not in (0, 1):
            raise ZooError("settling e2fsck failed for %s rc=%s: %s" % (spec["name"], r.rc, r.text[-800:]))
    if tdir and not keep_tree:
        shutil.rmtree(tdir, ignore_errors=True)
    return {"name": spec["name"], "path": path, "journal_dev": jdev, "tree": tdir if keep_tree else None}


def fsck_clean(b, path, jdev=None, timeout=120):
    r = run.run([b.tool("e2fsck"), "-fn", path], env=run.base_env(b), timeout=timeout)
    return r.rc == 0, r


# -------------------------------------------------------------------------------------
# committed corpus

def corpus_index():
    p = os.path.join(VERIF, "corpus", "index.json")
    with open(p) as f:
        return json.load(f)


def corpus_image(name, destdir):
    """Unpack corpus/<name>.img.xz into destdir; returns the image path (and .jnl if any)."""
    src = os.path.join(VERIF, "corpus", name + ".img.xz")
    dst = os.path.join(destdir, name + ".img")
    if not os.path.exists(dst):
        part = "%s.part%d" % (dst, os.getpid())      # several workers may unpack the same image
        with open(part, "wb") as out:
            subprocess.run(["xz", "-dc", src], stdout=out, check=True)
        os.rename(part, dst)
    j = os.path.join(VERIF, "corpus", name + ".jnl.xz")
    if os.path.exists(j) and not os.path.exists(dst + ".jnl"):
        part = "%s.jnl.part%d" % (dst, os.getpid())
        with open(part, "wb") as out:
            subprocess.run(["xz", "-dc", j], stdout=out, check=True)
        os.rename(part, dst + ".jnl")
    return dst


def corpus_names(tier="quick", include_big=False):
    idx = corpus_index()
    names = [e["name"] for e in idx["images"] if include_big or not e.get("big")]
    if tier == "quick":
        return [n for n in names if n in QUICK_NAMES]
    return names
